#!/bin/sh
# Offline set-up: nothing is built; verify the interpreter, the PEG shim table,
# the T4 reader and the witness generator.
HERE="$(cd "$(dirname "$0")" && pwd)"
cd "$HERE" || exit 2
export PYTHONDONTWRITEBYTECODE=1 PYTHONHASHSEED=0 T4GC_VERIF=1 OPENBLAS_NUM_THREADS=1 OMP_NUM_THREADS=1 MKL_NUM_THREADS=1
mkdir -p evidence replays
exec /venv/bin/python -m t4mc.selftest
