#!/usr/bin/env python3
"""Writes seeded/RESULTS.md and refreshes section 10 of DESIGN.md from seeded/*/meta.json."""
import glob, json, os, re
HERE = os.path.dirname(os.path.dirname(os.path.abspath(__file__)))
rows = []
for f in sorted(glob.glob(os.path.join(HERE, 'seeded', '*', 'meta.json'))):
    m = json.load(open(f))
    rows.append(m)
head = ('| seeded change | breaks | needs, in order to manifest | caught by | first version of the checks |\n'
        '|---|---|---|---|---|\n')
body = ''
missed = 0
for m in rows:
    first = 'caught' if m['history'].startswith('caught at once') else 'MISSED, then strengthened'
    if first != 'caught':
        missed += 1
    body += '| %s | %s | %s | %s | %s |\n' % (m['id'], m['property_broken'], m['needs_to_manifest'].replace('|', '/'),
                                            '; '.join(m['caught_by']), m['history'].replace('|', '/'))
unclaimed = [m['id'] for m in rows if not m['checks']]
txt = ('%d seeded changes are kept (each: patch.diff, demo.py, NOTES.md, meta.json under `/verif/seeded/<id>/`). '
       'All were written by sub-agents that were given only the property text and a scratch worktree (from the second '
       'round on: plus one-line descriptions of the earlier seeds for the same property, to force a different kind of '
       'change; fifth round: asked to use an anchored file no earlier seed touched; sixth round: told the bounds of '
       'the small-scope enumeration and asked for a change that only shows beyond them), and each was '
       're-confirmed with `tools/verify_seed.sh` (applies, pinned tests unchanged, demo fails with / passes without). '
       '%d of them were missed by the checks as they stood when the seed arrived; every miss was traced to a feature '
       'or a size absent from the explored alphabet (never to the oracle), the alphabet was widened, and %d are now '
       'reported on every run (`tools/run_seeded.sh <id>` exits with a VIOLATION line; `tools/regress_seeds.sh` '
       're-runs them all).  Not reported, by decision: %s (see its row).  Nine meaning-preserving refactorings '
       'are kept next to them (`seeded/benign/`, Section 9).\n\n'
       % (len(rows), missed, len(rows) - len(unclaimed), ', '.join(unclaimed) or 'none'))
open(os.path.join(HERE, 'seeded', 'RESULTS.md'), 'w').write('# Seeded property-breaking changes\n\n' + txt + head + body)
d = open(os.path.join(HERE, 'DESIGN.md')).read()
i = d.index('## 10. Seeded changes and which checks catch them')
d = d[:i] + '## 10. Seeded changes and which checks catch them\n\n' + txt + head + body
extra = os.path.join(HERE, 'seeded', 'OWN_MUTANTS.md')
if os.path.exists(extra):
    d += '\n' + open(extra).read()
open(os.path.join(HERE, 'DESIGN.md'), 'w').write(d)
print(len(rows), 'seeds,', missed, 'missed at first')
