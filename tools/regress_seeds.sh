#!/bin/sh
# Runs every kept seeded change against the checks named in its meta.json; one summary line per seed.
cd "$(dirname "$0")/.." || exit 2
for d in seeded/*/; do
  id=$(basename "$d")
  [ -f "$d/meta.json" ] || continue
  out=$(tools/run_seeded.sh "$id" 2>&1)
  n=$(echo "$out" | grep -c "^VIOLATION")
  h=$(echo "$out" | grep -c "^HARNESS")
  if [ "$n" -gt 0 ]; then echo "$id CAUGHT ($n violation lines)"; else echo "$id NOT-CAUGHT harness=$h"; fi
done
