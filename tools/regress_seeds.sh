#!/bin/sh
# Runs every kept seeded change against the checks named in its meta.json; one summary line per seed.
cd "$(dirname "$0")/.." || exit 2
for d in seeded/*/; do
  id=$(basename "$d")
  [ -f "$d/meta.json" ] || continue
  if python3 -c "import json,sys; sys.exit(0 if not json.load(open('$d/meta.json'))['checks'] else 1)"; then
    echo "$id NOT-CLAIMED (see meta.json: outside the quantified input language)"; continue
  fi
  out=$(tools/run_seeded.sh "$id" 2>&1)
  n=$(echo "$out" | grep -c "^VIOLATION")
  h=$(echo "$out" | grep -c "^HARNESS")
  if [ "$n" -gt 0 ]; then echo "$id CAUGHT ($n violation lines)"; else echo "$id NOT-CAUGHT harness=$h"; fi
done
