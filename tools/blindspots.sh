#!/bin/sh
# usage: tools/blindspots.sh [ID...]     (development aid, not a registered check)
# Runs the quick checks with line coverage of the converter switched on in the worker processes
# (T4MC_COVERAGE, see runner._init_worker) and prints the lines of /repo no generated deck reaches.
# Lines that are never reached cannot be decided by any check: use the list to widen alphabets.
D="$(mktemp -d /dev/shm/t4mc-cov-XXXXXX)"
trap 'rm -rf "$D"' EXIT
cd "$(dirname "$0")/.."
[ $# -eq 0 ] && set -- C01 C02 C03 C04 C05 C06 C07 C08 C09 C10 C11 C12 C13 C14 C15 C16 C17
for id in "$@"; do
  T4MC_COVERAGE="$D" T4MC_EVIDENCE_DIR="$D/ev" T4MC_REPLAY_DIR="$D/rp" T4MC_BUDGET_S=600 ./check "$id" | grep -E "tier=|HARNESS|VIOLATION"
done
printf '[run]\ndata_file = %s/cov\n[report]\nomit = */IntegrationTests/*,*/test_*,*/conftest.py\n' "$D" > "$D/rc"
/venv/bin/python -m coverage combine --rcfile="$D/rc" "$D"/cov.* >/dev/null
/venv/bin/python -m coverage report --rcfile="$D/rc" -m | cut -c1-240
