#!/usr/bin/env python3
"""Regenerates MANIFEST.json from the table below (kept in one place so that the
manifest stays valid while checks are being added)."""
import json, os, subprocess
HERE = os.path.dirname(os.path.dirname(os.path.abspath(__file__)))
props = [json.loads(l) for l in open(os.path.join(HERE, 'properties.jsonl'))]

CHECKS = {
 'C01': dict(cat='model_checking', ref='4/C01',
   text='Bounded exhaustive exploration: every deck of the stated alphabet (expression trees up to k leaves over plane, macrobody and facet literals, #( ) and #n complements, importances) is converted with the real entry point and compared with an independent reference at one witness point in every cell of the joint plane arrangement, which decides the per-deck claim for all points off the surfaces.',
   note='Trusted: MCNP/T4 semantics tables (DESIGN 5), PEG shim replacing TatSu, numpy. Decks restricted to the finite alphabet; points closer than 1e-6 to a surface not examined.',
   tech='explicit choice-tree enumeration (deviation-bounded, iterated) of decks against a reference model; complete plane-arrangement witnesses per deck'),

 'C11': dict(cat='model_checking', ref='4/C11',
   text='Bounded exhaustive exploration of the expression language at the parser/complement-elimination seam: every tree up to the stated size, in every spelling within the deviation bound, is parsed with the real get_ast and pot_complement and compared with the generating tree under all 2^n sense assignments; the same spelled expressions are also sent through the whole converter and compared at arrangement witnesses.',
   note='Trusted: PEG shim in place of the TatSu runtime (grammar file and semantic actions are the repository\'s), MCNP expression rules. Random generation beyond the bound is replaced by a larger exhaustive bound in the thorough tier.',
   tech='explicit choice-tree enumeration of expressions x spellings; truth-table comparison over all sense assignments'),

 'C02': dict(cat='model_checking', ref='4/C02',
   text='Bounded exhaustive exploration of surface cards: every mnemonic with every parameter vector of a finite alphabet (full product, deviation-bounded for SQ/GQ) is converted in a one-surface deck; each emitted SURF is proved to have the zero set of the MCNP equation by polynomial identification on a unisolvent point set (a decision for all points), and the -s/+s probe volumes are compared with the MCNP sense on a lattice realising every sign vector.',
   note='Trusted: MCNP surface equations/sense rules and TRIPOLI-4 surface conventions (DESIGN 5). Continuous parameters are covered at the alphabet values only. Excluded: SQ with positive-sense centre, spindle tori.',
   tech='explicit enumeration of cards; polynomial identification + sign-vector comparison per card'),

 'C03': dict(cat='model_checking', ref='4/C03',
   text='Bounded exhaustive exploration of macrobody cards: every body kind with every orientation, handedness and parameterisation of a finite alphabet (full product) is converted with probe cells -b, +b, +b.k and -b.k for every facet; each emitted surface is identified with a facet of the reference solid as a polynomial, and the probe volumes are compared with the metric definition at complete plane-arrangement witnesses (all-plane bodies) or witnesses plus a lattice (curved bodies).',
   note='Trusted: macrobody definitions and facet numbering of the MCNP manual; ELL with positive last entry follows the empirical rule documented upstream; facets 3-6 of a 9-entry RHP are not probed.',
   tech='explicit enumeration of cards; polynomial identification of facets + complete arrangement witnesses'),

 'C04': dict(cat='model_checking', ref='4/C04',
   text='Bounded exhaustive exploration of (object, rigid motion, card spelling): 16 object kinds x 2 displacements x 27 rotations (all 24 axis-permuting/flipping rotations plus three generic ones) for TRn on the surface card and for cell TRCL, and all spellings (12/13/3 entries, *TR, inline and starred TRCL, implicit surfaces referenced negatively, positively or both) over a 6-rotation subset; each emitted surface is identified as the image f(B(x-O)) of the reference polynomial and the probe volumes are compared on a lattice; abbreviated matrices (9/6/5/3 entries, J placeholders, rows or columns) are recovered from the written planes and must be proper rotations reproducing every supplied entry.',
   note='Trusted: MCNP TR semantics (DESIGN 5). Rotations and displacements are covered at the alphabet values only.',
   tech='explicit enumeration of objects x motions x spellings; polynomial identification of the moved surface + lattice sign comparison'),

 'C05': dict(cat='model_checking', ref='4/C05',
   text='Bounded exhaustive exploration of universe trees (depth 1-3, 2-3 cells per universe, reuse of one universe in two containers, per-level transformations in five motions x five spellings, container TRCL with/without FILL transformation, universe cells with TRCL, six option sets), all choices deviation-bounded and iterated; every deck is converted with the real entry point and compared with the reference locate() - owner volume and (filler, container) provenance chain - at one witness in every cell of the joint arrangement of all reference planes in all frames and all planes of the file.',
   note='Trusted: FILL/TRCL precedence as characterised upstream (DESIGN 5), provenance comment format, PEG shim. Filler-cell importances are 1. Bound on deviations reported in the evidence.',
   tech='explicit choice-tree enumeration (deviation-bounded) of hierarchical decks against a reference locate(); complete plane-arrangement witnesses'),
 'C09': dict(cat='model_checking', ref='4/C09',
   text='Bounded exhaustive exploration of materials x density spellings on level-0 layouts, on the C05 universe trees and on LIKE n BUT MAT/RHO cards; for every arrangement witness the GEOMCOMP line listing the containing volume must name the composition of the reference lowest-level owner cell (void -> m0), one name per (material, density class), spelling-equivalent densities sharing and numerically different ones never sharing, and the COMPOSITION entry must carry the density value.',
   note='Trusted: spelling classes = trailing zeros of the fraction and exponent marker e/E/d/D/omitted over identical digits; other respellings (zero exponent, zeros inside the exponent) are accepted either way. Geometry semantics as C05.',
   tech='explicit choice-tree enumeration of decks; GEOMCOMP/COMPOSITION joined with the geometry evaluator at complete witnesses'),

 'C13': dict(cat='model_checking', ref='4/C13',
   text='For every deck of a deviation-bounded family of universe trees and of a family of surface sets built to stress surface equality and hashing, ALL 56 configurations (2^3 flags x 7 inline scores) are converted; each output must agree with the reference (owner provenance and composition) at all witnesses, which makes all configurations pairwise equivalent, and every surface use of the un-deduplicated file must have a polynomially identical surface on the same side of the same volume of the de-duplicated file.',
   note='Trusted: semantics as C05/C09. Real inline scores are covered at 7 values on both sides of every threshold reachable by the decks.',
   tech='explicit enumeration of decks x complete configuration product; reference comparison at witnesses + polynomial identity of merged surfaces'),

 'C06': dict(cat='model_checking', ref='4/C06',
   text='Bounded exhaustive exploration of LAT=1 decks: ALL fill arrays over {0, own universe, u2, u3} for 2x2, 3x2 (with a fill rotation), flipped and swapped pair listings and 1-D cells, plus a deviation-bounded family over dimensions, skew cells, -rpp cells, ranges (negative, degenerate, trailing trivial), FILL=n with --lattice, fill transformations in three spellings, lattice TRCL and containers larger than / cutting the range; each deck is compared with the reference lattice semantics (owner filler cell, outermost container, composition) at one witness per cell of the joint plane arrangement.',
   note='Trusted: MCNP lattice conventions as stated in the property; synthetic element ids in provenance comments are not compared, index assignment is observed through asymmetric arrays.',
   tech='explicit enumeration (complete array products + deviation-bounded shapes) against a reference lattice model; complete plane-arrangement witnesses'),

 'C07': dict(cat='model_checking', ref='4/C07',
   text='Bounded exhaustive exploration of LAT=2 decks: regular and irregular (stretched, sheared) hexagons in three orientations, prism axis z/x/oblique, six or eight planes, every admissible listing (start side, chirality, order of the last two side planes, either normal orientation per plane, axial pair order), ranges and asymmetric fill arrays, all choices deviation-bounded and iterated; compared with a reference whose base vectors come from half-plane clipping of the hexagon (a1 across the 1st listed plane, a2 across the 3rd, a3 across the 7th) at complete plane-arrangement witnesses.',
   note='Trusted: MCNP hexagonal index convention as stated in the property; only listings with the 3rd plane adjacent to the 1st are generated. Index assignment is observed through asymmetric arrays (filler identity, composition), not through synthetic element ids.',
   tech='explicit choice-tree enumeration (deviation-bounded) against a clipped-polygon reference lattice model; complete plane-arrangement witnesses'),

 'C10': dict(cat='model_checking', ref='4/C10',
   text='Bounded exhaustive exploration of material cards: every Z from 1 to 118 with four mass numbers (complete), and over a 6-nuclide subset all combinations within the deviation bound of library suffix, keyword entries in three positions, 1-3 nuclides, five fraction spellings, positive / negative / mixed signs and mass or atom cell densities; the COMPOSITION block is parsed and compared with an independent periodic table and with the arithmetic of the statement (order, symbol+A / -NAT, DENSITY with NB_ATOM iff positive entries, POINT_WISE concentrations proportional and summing to the density, mixed signs rejected).',
   note='Trusted: TRIPOLI-4 nuclide naming as used by the writer; metastable ZAIDs not generated; mass fractions with an atom density are outside the statement (the converter warns).',
   tech='explicit enumeration of material cards; parsed COMPOSITION block vs independent table and arithmetic'),
 'C12': dict(cat='model_checking', ref='4/C12',
   text='Bounded exhaustive exploration of importance specifications on 3-5 level-0 cells whose numbers are not in card order: per cell the source (IMP:N, IMP:N,P, IMP:N+IMP:P in both orders, none), data cards imp:n / imp:p expanded or with nR, nM, nI shorthand, values 0/1/2 at every position; the set of VOLU ids must equal the cells whose maximum importance over particle types is non-zero and the NOTE line must list exactly the others.',
   note='Trusted: importance = maximum over the particle types (property statement). Decks with all importances zero are not generated.',
   tech='explicit choice-tree enumeration of importance layouts; set comparison of emitted volumes and NOTE line'),

 'C15': dict(cat='model_checking', ref='4/C15',
   text='Bounded exhaustive exploration of LIKE n BUT cards: base cell (void/material, three geometries, five option sets) x every subset of the overrides {MAT, RHO, U, FILL, TRCL, *TRCL, IMP} with two values each and both orders, chains LIKE-of-LIKE of length 2 and 3, base before or after, all within an iterated deviation bound; differential oracle: the generator expands the abbreviation and both decks are converted with the real entry point; volume ids, membership of every volume at witnesses + lattice, compositions and GEOMCOMP association must be equal.',
   note='Trusted: LIKE n BUT = copy of the card with the listed parameters replaced. The oracle is differential (no MCNP semantics needed beyond that).',
   tech='explicit choice-tree enumeration; differential comparison LIKE deck vs generator-expanded deck'),
 'C16': dict(cat='model_checking', ref='4/C16',
   text='Complete product of flag placements ({none,*,+} on a plane and a sphere bounding converted cells, on a plane used only by an importance-0 cell, on an unused plane), identical unflagged copies with lower/higher/both numbers (used or unused), flagged macrobody, with and without --skip-deduplication; the BOUNDARY_CONDITION block must contain exactly one entry of the right kind per flagged surface bounding a converted cell, naming a SURF of the file with the flagged polynomial, and nothing else; a flagged macrobody must be rejected.',
   note='Trusted: * -> REFLECTION, + -> COSINUS. Two flagged surfaces with the same locus are not generated.',
   tech='explicit enumeration (complete product); BC block joined with polynomial identification of the designated SURF'),

 'C17': dict(cat='fault_enumeration', ref='4/C17',
   text='Complete enumeration of the fault classes of the statement at every applicable site of valid base decks: m=-1 on TR cards (plain, starred, unused, used by a surface) and in inline plain/starred TRCL and FILL; LAT cells without --lattice, with --lattice for another cell, with too few / too many / misplaced non-trivial ranges on the card and on the command line, FILL arrays one short and one long; every elementary mnemonic and every macrobody with one parameter too few and too many; unknown mnemonics; facet 0 and n+1 of every macrobody kind; IMP cards of unequal length; mixed-sign fractions at every position; malformed --lattice strings. A normally finished conversion, an empty message or a bare Python KeyError/IndexError/TypeError is a violation; the un-faulted base decks must convert.',
   note='Trusted: parameter counts per mnemonic (MCNP manual); the 5-entry torus accepted by the bundled MIP library is not counted as a fault. Two recorded known findings (surplus FILL array entry read as a transformation number).',
   tech='exhaustive fault x site enumeration against the real entry point'),

 'C14': dict(cat='model_checking', ref='4/C14',
   text='Explicit-state breadth-first search over sequences of MCNP-insignificant rewrites (upper-casing, blanks and tabs, leading blanks, continuation by 5 blanks / tab / trailing ampersand, $ and c comments also inside continued cards, message block, number respellings including the Fortran forms, data-card shorthand versus expansion) applied one site at a time to four base decks covering every card type; states are deck texts de-duplicated on identity; in every state the parsed output (surfaces, volumes, compositions numerically, GEOMCOMP, boundary conditions) must equal that of the base deck.',
   note='Trusted: the rewrite menu is MCNP-equivalent (manual). Sites are capped at the first, middle and last token boundary of a card; depth 2 in the quick tier, depth 3 (time-capped, the completed depth is reported) in the thorough tier. CRLF line ends are not in the property and are not demanded.',
   tech='explicit-state BFS over rewrite sequences with state de-duplication; differential comparison with the base deck'),

 'C08': dict(cat='model_checking', ref='4/C08',
   text='Bounded exhaustive exploration of a deck family aimed at the interleavings of pruning, de-duplication, caching and inlining (patently empty cells at level 0, as fillers, nested, shared by two containers, complement of a lattice cell, duplicated surface cards, flagged surfaces unused or de-duplicated away) times all inlining / de-duplication configurations and the three --skip options, plus the states of the generators of eight other checks; every written file is parsed by an independent reader and must satisfy each clause of the statement (ids defined once, references resolved, counts right, no surface on both sides, finite numbers, GEOMCOMP partition, COMPOSITION count).',
   note='Trusted: TRIPOLI-4 input conventions (DESIGN 5); the reader is written from them, not from the writer. The same structural report is a side condition of every other check.',
   tech='explicit choice-tree enumeration of decks x option sets; total structural report of every written file'),

 'C18': dict(cat='model_checking', ref='4/C18',
   text='Explicit enumeration of ALL histories of length <= 3 (quick) / 4 (thorough) over 8 colliding (deck, options) items, each history in one fresh interpreter, every step compared byte-for-byte with the golden output of its item from a fresh process; a fingerprint of the interpreter-global state of the MIP / t4_geom_convert modules is taken after every step (closure argument: if every transition returns to the initial fingerprint the reachable state set is one state and the result extends to histories of any length); every item is additionally converted in fresh processes under 16 / 128 PYTHONHASHSEED values; input bytes, mtime and directory listing are compared around every run.',
   note='Trusted: header lines are excluded from the comparison; --cache is not in the alphabet. The fingerprint covers module attributes, class attributes, function defaults and closures of the converter modules (not third-party modules).',
   tech='explicit-state enumeration of conversion histories and hash seeds over fresh processes; byte comparison with golden outputs'),
}
NA_REASON = 'check not built yet in this build round (planned, see DESIGN.md section 4); no claim is made'

def main():
    checks = []
    for p in props:
        c = CHECKS.get(p['id'])
        if not c:
            continue
        checks.append(dict(
            property_id=p['id'],
            quick_cmd='./check %s --tier quick' % p['id'],
            thorough_cmd='./check %s --tier thorough' % p['id'],
            evidence_file='/verif/evidence/%s.json' % p['id'],
            replay_cmd_template='./check %s --replay {path}' % p['id'],
            engine='t4mc',
            level_claimed=dict(category=c['cat'], text=c['text'], design_ref=c['ref']),
            level_note=c['note'], technique=c['tech']))
    na = [dict(property_id=p['id'], reason=NA.get(p['id'], NA_REASON)) for p in props if p['id'] not in CHECKS]
    hooks_commits = []
    man = dict(version=1, setup_cmd='./setup.sh',
        hooks=dict(guard='T4GC_VERIF', enable='no source hooks are needed: checks import /repo (or $T4MC_REPO) directly and replace only the third-party TatSu parser object at run time; T4GC_VERIF=1 is exported by ./check for uniformity',
                   baseline_off_cmd='cd /repo && /venv/bin/python -m pytest -ra -q -p no:cacheprovider --timeout=900 --continue-on-collection-errors',
                   source_commits=hooks_commits, add_only=True),
        engines=[dict(name='t4mc', path='/verif/t4mc', serves_properties=[c['property_id'] for c in checks],
                      kind_free_text='hand-written stateless choice-tree explorer with iterated deviation bounding (E1) and explicit-state BFS (E2) driving the real converter entry points; independent reference semantics, T4 reader and finite geometric decision procedures')],
        checks=checks, not_applicable=na,
        notes='See DESIGN.md. Exit codes: 0 held, 1 violation (VIOLATION line + replay file), 2 harness failure. known_findings.json lists recorded/fixed genuine defects.')
    with open(os.path.join(HERE, 'MANIFEST.json'), 'w') as f:
        json.dump(man, f, indent=1)
    import jsonschema
    jsonschema.validate(man, json.load(open('/root/.vp/MANIFEST.schema.json')))
    print('MANIFEST.json: %d checks, %d not_applicable' % (len(checks), len(na)))
NA = {}
main()
