#!/usr/bin/env python3
"""Refreshes the as-built scenario inventory in DESIGN.md (between the INVENTORY markers) from evidence/*.json."""
import glob, json, os
HERE = os.path.dirname(os.path.dirname(os.path.abspath(__file__)))
rows = []
for f in sorted(glob.glob(os.path.join(HERE, 'evidence', 'C*.json'))):
    e = json.load(open(f))
    c = e['coverage']
    sc = c.get('scenarios')
    if sc:
        for name, v in sc.items():
            b = v['deviation_bound']
            rows.append('| %s | %s | %s | %s | %s |' % (e['property_id'], name, 'full product' if b is None else '<= %d deviations' % b,
                                                     v['executions'], (v.get('note') or '').replace('|', '/')))
    else:
        rows.append('| %s | histories + hash seeds | depth %s, %s seeds | %s | %s |' % (
            e['property_id'], c.get('history_depth'), c.get('n_hash_seeds'), c.get('evaluations'),
            'all histories over %s items; fingerprints=%s closed=%s' % (c.get('alphabet'), c.get('global_state_fingerprints'), c.get('global_state_closed'))))
block = ('<!-- INVENTORY-BEGIN -->\n'
         '| property | scenario | bound (quick tier) | executions (measured, quick) | what it enumerates |\n|---|---|---|---|---|\n'
         + '\n'.join(rows) + '\n<!-- INVENTORY-END -->')
d = open(os.path.join(HERE, 'DESIGN.md')).read()
if '<!-- INVENTORY-BEGIN -->' in d:
    i, j = d.index('<!-- INVENTORY-BEGIN -->'), d.index('<!-- INVENTORY-END -->') + len('<!-- INVENTORY-END -->')
    d = d[:i] + block + d[j:]
else:
    k = d.index('## 5. Trusted base and assumptions')
    d = d[:k] + ('### 4b. As built: scenario inventory\n\n*Built:* the alphabets below are the ones actually explored.  They are wider than the plans '
                 'above in every place where a seeded change (Section 10) or an own mutant showed a missing feature; the per-property '
                 'RULE string in each evidence file states the alphabet and the non-triviality rule in words.  Thorough tiers use the same '
                 'scenarios with larger deviation bounds or full products (see `scenarios(tier)` in each module).\n\n'
                 + block + '\n\n---------------------------------------------------------------------------\n\n') + d[k:]
open(os.path.join(HERE, 'DESIGN.md'), 'w').write(d)
print(len(rows), 'scenario rows')
