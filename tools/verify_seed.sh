#!/bin/sh
# usage: tools/verify_seed.sh <dir-with-patch.diff-and-demo.py>
# Confirms a seeded change: applies in a scratch worktree, pinned tests unchanged, demo fails with / passes without.
D="$(realpath "$1")"
WT="$(mktemp -d /tmp/t4mc-vs-XXXXXX)"; rmdir "$WT"
CL="$(mktemp -d /tmp/t4mc-vc-XXXXXX)"; rmdir "$CL"
git -C /repo worktree add -q "$WT" HEAD || exit 2
git -C /repo worktree add -q "$CL" HEAD || exit 2
cleanup() { git -C /repo worktree remove --force "$WT" >/dev/null 2>&1; git -C /repo worktree remove --force "$CL" >/dev/null 2>&1; rm -rf "$WT" "$CL"; }
trap cleanup EXIT
git -C "$WT" apply "$D/patch.diff" || { echo "PATCH-DOES-NOT-APPLY"; exit 3; }
echo "--- files touched:"; git -C "$WT" diff --stat | tail -5
echo "--- pinned tests with the patch:"
(cd "$WT" && /venv/bin/python -m pytest -q -p no:cacheprovider --timeout=900 --continue-on-collection-errors 2>&1 | grep -E "^(FAILED|ERROR)|passed|failed" | grep -v "test_convert\[" | tail -6)
echo "--- demo on patched tree:"
(cd /tmp && timeout 600 /venv/bin/python "$D/demo.py" "$WT" > "$WT/.demo_out" 2>&1; echo "exit=$?"; tail -5 "$WT/.demo_out")
echo "--- demo on clean tree:"
(cd /tmp && timeout 600 /venv/bin/python "$D/demo.py" "$CL" > "$CL/.demo_out" 2>&1; echo "exit=$?"; tail -3 "$CL/.demo_out")
