#!/bin/sh
# usage: tools/run_seeded.sh <seeded-id> [<ID>...]
# Runs the quick checks named in seeded/<id>/meta.json ("checks") - or those given - against a scratch
# worktree of /repo with seeded/<id>/patch.diff applied.  /repo itself is not touched.
D="$(cd "$(dirname "$0")/.." && pwd)/seeded/$1"
shift
if [ $# -eq 0 ]; then
  set -- $(python3 -c "import json,sys; print(' '.join(json.load(open('$D/meta.json'))['checks']))")
fi
# a seed may name the commit of /repo it applies to ("base" in meta.json) when a later fix: commit touches the same lines
B=$(python3 -c "import json; print(json.load(open('$D/meta.json')).get('base',''))")
[ -n "$B" ] && export BASE="$B"
exec "$(dirname "$0")/try_patch.sh" "$D/patch.diff" "$@"
