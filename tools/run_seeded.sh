#!/bin/sh
# usage: tools/run_seeded.sh <seeded-id> [<ID>...]
# Runs the quick checks named in seeded/<id>/meta.json ("checks") - or those given - against a scratch
# worktree of /repo with seeded/<id>/patch.diff applied.  /repo itself is not touched.
D="$(cd "$(dirname "$0")/.." && pwd)/seeded/$1"
shift
if [ $# -eq 0 ]; then
  set -- $(python3 -c "import json,sys; print(' '.join(json.load(open('$D/meta.json'))['checks']))")
fi
exec "$(dirname "$0")/try_patch.sh" "$D/patch.diff" "$@"
