#!/bin/sh
# usage: tools/try_patch.sh <patch.diff> <ID> [<ID>...]   (TIER=quick|thorough)
# BASE=<commit> applies the patch to that commit of /repo instead of HEAD.
# Applies the patch to a scratch worktree of /repo (outside /repo and /verif), runs the
# named checks against it (T4MC_REPO), removes the worktree.  Never touches /repo's tree.
P="$(realpath "$1")"; shift
WT="$(mktemp -d /tmp/t4mc-wt-XXXXXX)"
rmdir "$WT"
git -C /repo worktree add -q "$WT" "${BASE:-HEAD}" || exit 2
cleanup() { git -C /repo worktree remove --force "$WT" >/dev/null 2>&1; rm -rf "$WT"; }
trap cleanup EXIT
if ! git -C "$WT" apply "$P"; then echo "PATCH DOES NOT APPLY"; exit 3; fi
cd /verif
for id in "$@"; do
  T4MC_REPO="$WT" T4MC_EVIDENCE_DIR="$WT/.evidence" T4MC_REPLAY_DIR="$WT/.replays" ./check "$id" --tier "${TIER:-quick}" 2>&1 | grep -E "^(VIOLATION|KNOWN|HARNESS|C[0-9]+ tier|  class)" | head -8
  echo "exit=$? ($id)"
done
