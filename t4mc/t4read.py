"""Independent reader / evaluator of the TRIPOLI-4 text the converter writes.

Written from the TRIPOLI-4 input conventions (DESIGN.md section 5), not from
the writer.  `parse` never raises on malformed content: every irregularity is
recorded in `T4File.problems` (the structural report used by C08 and as a side
condition by every other check).
"""
import math
import re

import numpy as np

SURF_ARITY = {
    'PLANEX': 1, 'PLANEY': 1, 'PLANEZ': 1, 'PLANE': 4, 'SPHERE': 4,
    'CYLX': 3, 'CYLY': 3, 'CYLZ': 3, 'CYL': 7,
    'CONEX': 4, 'CONEY': 4, 'CONEZ': 4, 'CONE': 7, 'QUAD': 10,
    'TORUSX': 6, 'TORUSY': 6, 'TORUSZ': 6,
}
PLANE_TYPES = ('PLANEX', 'PLANEY', 'PLANEZ', 'PLANE')


class T4File:
    def __init__(self):
        self.surfs = {}        # id -> (type, params, transform id or None)
        self.surf_comment = {}
        self.transforms = {}   # id -> 12 floats
        self.vols = {}         # id -> dict(plus, minus, op, fictive, comment)
        self.vol_order = []
        self.compos = []       # dict(kind, temp, name, density, nb_atom, n, items)
        self.ncompos_declared = None
        self.geomcomp = []     # (name, n, ids)
        self.bcs = []          # (kind, id)
        self.nbc_declared = None
        self.problems = []     # list of (rule, detail)
        self.sections = []

    def problem(self, rule, detail):
        self.problems.append((rule, str(detail)[:300]))

    def nonvirtual(self):
        return [v for v in self.vol_order if not self.vols[v]['fictive']]

    def provenance(self, vid):
        """Pairs parsed from the volume comment: '(3, 2); (3, 10)'."""
        c = self.vols[vid]['comment']
        return [(int(a), int(b)) for a, b in re.findall(r'\(\s*(-?\d+)\s*,\s*(-?\d+)\s*\)', c)]


def _num(tok, t4, what):
    try:
        v = float(tok)
    except (TypeError, ValueError):
        t4.problem('numeric-field', '%s: %r is not a number' % (what, tok))
        return float('nan')
    if not math.isfinite(v):
        t4.problem('numeric-field', '%s: %r is not finite' % (what, tok))
    return v


def _int(tok, t4, what):
    try:
        return int(tok)
    except (TypeError, ValueError):
        t4.problem('id-field', '%s: %r is not an integer' % (what, tok))
        return None


_G_STMT = ('TITLE', 'HASH_TABLE', 'TRANSFORM', 'SURF', 'VOLU', 'ENDG')
_INT_RE = re.compile(r'^[-+]?\d+$')


class _Lex:
    """Free-format token stream: blanks and line breaks separate tokens, // comments run to the end of the
    line, /* */ comments are dropped.  Comments met while reading are kept in `comments` so that a statement
    can claim the ones that follow it."""

    def __init__(self, text):
        text = re.sub(r'/\*.*?\*/', lambda m: re.sub(r'[^\n]', ' ', m.group(0)), text, flags=re.S)
        self.items = []
        for ln, raw in enumerate(text.split('\n')):
            line, sep, comment = raw.partition('//')
            for t in line.split():
                self.items.append((t, ln))
            if sep:
                self.items.append((None, ln, comment))
        self.pos = 0
        self.comments = []

    def _skip(self):
        while self.pos < len(self.items) and self.items[self.pos][0] is None:
            self.comments.append(self.items[self.pos][2])
            self.pos += 1

    def peek(self):
        self._skip()
        return self.items[self.pos][0] if self.pos < len(self.items) else None

    def next(self):
        self._skip()
        if self.pos >= len(self.items):
            return None
        t = self.items[self.pos][0]
        self.pos += 1
        return t

    def skip_line(self):
        """drop the remaining tokens of the line of the token just read"""
        ln = self.items[self.pos - 1][1]
        while self.pos < len(self.items) and self.items[self.pos][1] == ln:
            self.pos += 1

    def take_comments(self):
        self._skip()
        c, self.comments = ' '.join(x.strip() for x in self.comments), []
        return c


def parse(text):
    t4 = T4File()
    lx = _Lex(text)
    while True:
        head = lx.next()
        if head is None:
            break
        if head == 'LANG':
            lx.next()
        elif head == 'GEOMETRY':
            t4.sections.append('GEOMETRY')
            _parse_geometry(t4, lx)
        elif head == 'COMPOSITION':
            t4.sections.append('COMPOSITION')
            _parse_compositions(t4, lx)
        elif head == 'GEOMCOMP':
            t4.sections.append('GEOMCOMP')
            _parse_geomcomp(t4, lx)
        elif head == 'BOUNDARY_CONDITION':
            t4.sections.append('BOUNDARY_CONDITION')
            _parse_bc(t4, lx)
        else:
            t4.problem('syntax', 'unexpected top-level token %r' % head)
    _structural(t4)
    return t4


def _parse_geometry(t4, lx):
    lx.take_comments()
    while True:
        head = lx.next()
        if head is None:
            t4.problem('syntax', 'section GEOMETRY not closed')
            return
        if head == 'ENDG':
            return
        if head == 'TITLE':
            lx.skip_line()
        elif head == 'HASH_TABLE':
            pass
        elif head == 'TRANSFORM':
            tid = _int(lx.next(), t4, 'TRANSFORM id')
            if lx.peek() != 'MATRIX':
                t4.problem('syntax', 'TRANSFORM %s: MATRIX expected, %r found' % (tid, lx.peek()))
                continue
            lx.next()
            vals = []
            while lx.peek() is not None and lx.peek() not in _G_STMT:
                vals.append(_num(lx.next(), t4, 'TRANSFORM %s' % tid))
            if len(vals) != 12:
                t4.problem('count', 'TRANSFORM %s MATRIX has %d entries, expected 12' % (tid, len(vals)))
            if tid in t4.transforms:
                t4.problem('duplicate-id', 'TRANSFORM %s defined twice' % tid)
            t4.transforms[tid] = vals
            lx.take_comments()
        elif head == 'SURF':
            sid = _int(lx.next(), t4, 'SURF id')
            tr = None
            if lx.peek() == 'TRANSFORM':
                lx.next()
                tr = _int(lx.next(), t4, 'SURF TRANSFORM ref')
            kind = lx.next()
            toks = []
            while lx.peek() is not None and lx.peek() not in _G_STMT:
                toks.append(lx.next())
            comment = lx.take_comments()
            if kind not in SURF_ARITY:
                t4.problem('syntax', 'unknown surface type %r in SURF %s' % (kind, sid))
                continue
            params = [_num(x, t4, 'SURF %s' % sid) for x in toks]
            if len(params) != SURF_ARITY[kind]:
                t4.problem('count', 'SURF %s %s has %d parameters, expected %d'
                           % (sid, kind, len(params), SURF_ARITY[kind]))
            if sid in t4.surfs:
                t4.problem('duplicate-id', 'SURF %s defined twice' % sid)
            t4.surfs[sid] = (kind, params, tr)
            t4.surf_comment[sid] = comment
        elif head == 'VOLU':
            tok = ['VOLU']
            closed = False
            while lx.peek() is not None and lx.peek() not in _G_STMT:
                t = lx.next()
                tok.append(t)
                if t == 'ENDV':
                    closed = True
                    break
            comment = lx.take_comments()
            if not closed:
                t4.problem('syntax', 'VOLU %s is not closed by ENDV' % (tok[1] if len(tok) > 1 else '?'))
                continue
            _parse_volu(t4, tok, ' '.join(tok), comment)
        else:
            t4.problem('syntax', 'unexpected token in GEOMETRY %r' % head)


def _parse_compositions(t4, lx):
    t4.ncompos_declared = _int(lx.next(), t4, 'COMPOSITION count')
    ends = ('DENSITY', 'POINT_WISE', 'END_COMPOSITION')
    while True:
        head = lx.next()
        if head is None:
            t4.problem('syntax', 'section COMPOSITION not closed')
            return
        if head == 'END_COMPOSITION':
            return
        if head not in ('DENSITY', 'POINT_WISE'):
            t4.problem('syntax', 'unexpected token in COMPOSITION %r' % head)
            continue
        c = dict(kind=head, temp=None, name=None, density=None, nb_atom=False, n=None, items=[])
        c['temp'] = _num(lx.next(), t4, 'composition temperature')
        c['name'] = lx.next()
        if head == 'DENSITY':
            c['density'] = _num(lx.next(), t4, 'DENSITY of %s' % c['name'])
            if lx.peek() == 'NB_ATOM':
                c['nb_atom'] = True
                lx.next()
        c['n'] = _int(lx.next(), t4, 'nuclide count of %s' % c['name'])
        rest = []
        while lx.peek() is not None and lx.peek() not in ends:
            rest.append(lx.next())
        if len(rest) % 2:
            t4.problem('syntax', 'composition %s: odd number of tokens in the nuclide list' % c['name'])
        for k in range(0, len(rest) - 1, 2):
            c['items'].append((rest[k], _num(rest[k + 1], t4, 'fraction of %s' % rest[k]), rest[k + 1]))
        t4.compos.append(c)


def _parse_geomcomp(t4, lx):
    while True:
        head = lx.next()
        if head is None:
            t4.problem('syntax', 'section GEOMCOMP not closed')
            return
        if head == 'END_GEOMCOMP':
            return
        cnt = _int(lx.next(), t4, 'GEOMCOMP count')
        ids = []
        while lx.peek() is not None and _INT_RE.match(lx.peek()):
            ids.append(int(lx.next()))
        t4.geomcomp.append((head, cnt, ids))


def _parse_bc(t4, lx):
    t4.nbc_declared = _int(lx.next(), t4, 'BOUNDARY_CONDITION count')
    while True:
        head = lx.next()
        if head is None:
            t4.problem('syntax', 'section BOUNDARY_CONDITION not closed')
            return
        if head == 'END_BOUNDARY_CONDITION':
            return
        if head == 'ALL_COMPLETE':
            kind = lx.next()
            t4.bcs.append((kind, _int(lx.next(), t4, 'boundary surface id')))
        else:
            t4.problem('syntax', 'unexpected token in BOUNDARY_CONDITION %r' % head)


def _parse_volu(t4, tok, raw, comment):
    if len(tok) < 4 or tok[2] != 'EQUA' or tok[-1] != 'ENDV':
        t4.problem('syntax', 'bad VOLU line %r' % raw)
        return
    vid = _int(tok[1], t4, 'VOLU id')
    plus, minus, op, fict = [], [], None, False
    j = 3
    end = len(tok) - 1
    while j < end:
        t = tok[j]
        if t in ('PLUS', 'MINUS', 'UNION', 'INTE'):
            cnt = _int(tok[j + 1], t4, 'VOLU %s %s count' % (vid, t)) if j + 1 < end else None
            k = j + 2
            ids = []
            while k < end and tok[k] not in ('PLUS', 'MINUS', 'UNION', 'INTE', 'FICTIVE'):
                ids.append(_int(tok[k], t4, 'VOLU %s %s item' % (vid, t)))
                k += 1
            if cnt is None or cnt != len(ids):
                t4.problem('count', 'VOLU %s: %s declares %s items, %d follow' % (vid, t, cnt, len(ids)))
            if t in ('PLUS', 'MINUS'):
                tgt = plus if t == 'PLUS' else minus
                if tgt:
                    t4.problem('syntax', 'VOLU %s: %s given twice' % (vid, t))
                tgt.extend(ids)
            else:
                if op is not None:
                    t4.problem('syntax', 'VOLU %s: two operators' % vid)
                op = (t, ids)
            j = k
        elif t == 'FICTIVE':
            fict = True
            j += 1
        else:
            t4.problem('syntax', 'VOLU %s: unexpected token %r' % (vid, t))
            j += 1
    if vid in t4.vols:
        t4.problem('duplicate-id', 'VOLU %s defined twice' % vid)
    else:
        t4.vol_order.append(vid)
    t4.vols[vid] = dict(plus=plus, minus=minus, op=op, fictive=fict, comment=comment.strip())


def _structural(t4):
    for sid, (kind, params, tr) in t4.surfs.items():
        if tr is not None and tr not in t4.transforms:
            t4.problem('dangling-ref', 'SURF %s uses undefined TRANSFORM %s' % (sid, tr))
    for vid, v in t4.vols.items():
        for s in v['plus'] + v['minus']:
            if s not in t4.surfs:
                t4.problem('dangling-ref', 'VOLU %s references undefined SURF %s' % (vid, s))
        both = set(v['plus']) & set(v['minus'])
        if both:
            t4.problem('both-sides', 'VOLU %s lists SURF %s on both sides' % (vid, sorted(both)))
        for lst, nm in ((v['plus'], 'PLUS'), (v['minus'], 'MINUS')):
            if len(set(lst)) != len(lst):
                t4.problem('duplicate-item', 'VOLU %s repeats a surface under %s' % (vid, nm))
        if v['op']:
            for o in v['op'][1]:
                if o not in t4.vols:
                    t4.problem('dangling-ref', 'VOLU %s %s references undefined VOLU %s'
                               % (vid, v['op'][0], o))
    # cycles among volumes
    state = {}

    def visit(v, stack):
        if state.get(v) == 2:
            return
        if state.get(v) == 1:
            t4.problem('cycle', 'volume reference cycle through %s' % v)
            return
        state[v] = 1
        op = t4.vols[v]['op']
        if op:
            for o in op[1]:
                if o in t4.vols:
                    visit(o, stack + [v])
        state[v] = 2
    for v in t4.vol_order:
        visit(v, [])
    # compositions
    if 'COMPOSITION' in t4.sections:
        if t4.ncompos_declared != len(t4.compos):
            t4.problem('count', 'COMPOSITION declares %s, %d written'
                       % (t4.ncompos_declared, len(t4.compos)))
        names = [c['name'] for c in t4.compos]
        if len(set(names)) != len(names):
            t4.problem('duplicate-id', 'composition name defined twice: %s'
                       % sorted(x for x in set(names) if names.count(x) > 1))
        for c in t4.compos:
            if c['n'] != len(c['items']):
                t4.problem('count', 'composition %s declares %s nuclides, %d follow'
                           % (c['name'], c['n'], len(c['items'])))
    if 'GEOMCOMP' in t4.sections:
        seen = {}
        for name, cnt, ids in t4.geomcomp:
            if cnt != len(ids):
                t4.problem('count', 'GEOMCOMP %s declares %s, %d follow' % (name, cnt, len(ids)))
            for v in ids:
                if v not in t4.vols:
                    t4.problem('dangling-ref', 'GEOMCOMP %s references undefined VOLU %s' % (name, v))
                elif t4.vols[v]['fictive']:
                    t4.problem('geomcomp-fictive', 'GEOMCOMP %s lists FICTIVE VOLU %s' % (name, v))
                seen[v] = seen.get(v, 0) + 1
            if 'COMPOSITION' in t4.sections and name not in [c['name'] for c in t4.compos]:
                t4.problem('dangling-ref', 'GEOMCOMP uses undefined composition %s' % name)
        gnames = [g[0] for g in t4.geomcomp]
        if len(set(gnames)) != len(gnames):
            t4.problem('duplicate-id', 'GEOMCOMP line repeated for a composition')
        for v in t4.nonvirtual():
            if seen.get(v, 0) != 1:
                t4.problem('geomcomp-partition', 'VOLU %s is listed %d times in GEOMCOMP'
                           % (v, seen.get(v, 0)))
    if 'BOUNDARY_CONDITION' in t4.sections:
        if t4.nbc_declared != len(t4.bcs):
            t4.problem('count', 'BOUNDARY_CONDITION declares %s, %d written'
                       % (t4.nbc_declared, len(t4.bcs)))
        for kind, sid in t4.bcs:
            if sid not in t4.surfs:
                t4.problem('dangling-ref', 'boundary condition on undefined SURF %s' % sid)
            if kind not in ('REFLECTION', 'COSINUS'):
                t4.problem('syntax', 'unknown boundary kind %s' % kind)


# ---------------------------------------------------------------------------
# surface functions (TRIPOLI-4 conventions)

def surf_f(kind, p, P):
    """Value of the implicit function of a T4 surface at points P (n,3).

    Negative = the side selected by MINUS.  Tori are returned in the quartic
    polynomial form (same sign as the usual form for ring tori).
    """
    x, y, z = P[:, 0], P[:, 1], P[:, 2]
    if kind == 'PLANEX':
        return x - p[0]
    if kind == 'PLANEY':
        return y - p[0]
    if kind == 'PLANEZ':
        return z - p[0]
    if kind == 'PLANE':
        return p[0] * x + p[1] * y + p[2] * z + p[3]
    if kind == 'SPHERE':
        return (x - p[0]) ** 2 + (y - p[1]) ** 2 + (z - p[2]) ** 2 - p[3] ** 2
    if kind == 'CYLX':
        return (y - p[0]) ** 2 + (z - p[1]) ** 2 - p[2] ** 2
    if kind == 'CYLY':
        return (x - p[0]) ** 2 + (z - p[1]) ** 2 - p[2] ** 2
    if kind == 'CYLZ':
        return (x - p[0]) ** 2 + (y - p[1]) ** 2 - p[2] ** 2
    if kind in ('CYL', 'CONE', 'CONEX', 'CONEY', 'CONEZ'):
        if kind == 'CYL':
            c, r, u = np.array(p[:3]), p[3], np.array(p[4:7], float)
        else:
            c, th = np.array(p[:3]), p[3]
            u = {'CONEX': [1, 0, 0], 'CONEY': [0, 1, 0], 'CONEZ': [0, 0, 1]}.get(kind)
            if u is None:
                u = p[4:7]
            u = np.array(u, float)
        u = u / np.linalg.norm(u)
        d = P - c
        a = d @ u
        perp2 = (d * d).sum(1) - a * a
        if kind == 'CYL':
            return perp2 - r * r
        return perp2 - math.tan(math.radians(th)) ** 2 * a * a
    if kind == 'QUAD':
        a, b, c, d, e, f, g, h, i, j = p
        return (a * x * x + b * y * y + c * z * z + d * x * y + e * y * z + f * z * x
                + g * x + h * y + i * z + j)
    if kind in ('TORUSX', 'TORUSY', 'TORUSZ'):
        ax = 'XYZ'.index(kind[-1])
        d = P - np.array(p[:3])
        A, B, C = p[3:6]
        za = d[:, ax]
        rho2 = (d * d).sum(1) - za * za
        q = za * za / (B * B) + (rho2 + A * A) / (C * C) - 1.0
        return q * q - 4.0 * A * A * rho2 / C ** 4
    raise ValueError('unknown surface type ' + str(kind))


def pullback(t4, off, s):
    """The same file seen in the coordinates Q with x = off + s Q (s > 0): a new T4File whose surfaces are the
    originals composed with that map (parameters transformed exactly, kind unchanged, sense unchanged).  Returns
    None when a surface kind is not supported (QUAD, tori, surfaces carrying a TRANSFORM)."""
    import copy
    off = np.asarray(off, float)
    new = copy.copy(t4)
    new.surfs = {}
    for sid, (kind, p, tr) in t4.surfs.items():
        p = list(p)
        if tr is not None:
            return None
        if kind in ('PLANEX', 'PLANEY', 'PLANEZ'):
            ax = 'XYZ'.index(kind[-1])
            q = [(p[0] - off[ax]) / s]
        elif kind == 'PLANE':
            n = np.array(p[:3], float)
            q = list(n * s) + [p[3] + float(n @ off)]
        elif kind == 'SPHERE':
            q = list((np.array(p[:3]) - off) / s) + [p[3] / s]
        elif kind in ('CYLX', 'CYLY', 'CYLZ'):
            ax = 'XYZ'.index(kind[-1])
            o2 = [off[i] for i in range(3) if i != ax]
            q = [(p[0] - o2[0]) / s, (p[1] - o2[1]) / s, p[2] / s]
        elif kind == 'CYL':
            q = list((np.array(p[:3]) - off) / s) + [p[3] / s] + list(p[4:7])
        elif kind in ('CONEX', 'CONEY', 'CONEZ'):
            q = list((np.array(p[:3]) - off) / s) + [p[3]]
        elif kind == 'CONE':
            q = list((np.array(p[:3]) - off) / s) + [p[3]] + list(p[4:7])
        else:
            return None
        new.surfs[sid] = (kind, q, None)
    return new


def surf_degree(kind):
    if kind in PLANE_TYPES:
        return 1
    if kind.startswith('TORUS'):
        return 4
    return 2


class Evaluator:
    """Vectorised membership evaluation of the volumes of a T4File."""

    def __init__(self, t4, P):
        self.t4 = t4
        self.P = np.asarray(P, float).reshape(-1, 3)
        self.s = {}
        self.v = {}

    def side(self, sid):
        if sid not in self.s:
            kind, p, tr = self.t4.surfs[sid]
            P = self.P
            if tr is not None:
                t = self.t4.transforms[tr]
                M = np.array(t[3:]).reshape(3, 3)
                P = (P - np.array(t[:3])) @ M      # rows: M^T (p - t)
            self.s[sid] = surf_f(kind, p, P)
        return self.s[sid]

    def inside(self, vid, _stack=()):
        if vid in self.v:
            return self.v[vid]
        if vid in _stack:
            raise ValueError('cycle through VOLU %s' % vid)
        v = self.t4.vols[vid]
        r = np.ones(len(self.P), bool)
        for s in v['plus']:
            r &= self.side(s) > 0
        for s in v['minus']:
            r &= self.side(s) < 0
        if v['op']:
            kind, ids = v['op']
            for o in ids:
                if kind == 'UNION':
                    r = r | self.inside(o, _stack + (vid,))
                else:
                    r = r & self.inside(o, _stack + (vid,))
        self.v[vid] = r
        return r

    def clearance(self, sids=None):
        """min |f| normalised by gradient-free scale: used to drop points that
        sit on a surface (only meaningful for planes with unit normals)."""
        sids = list(self.t4.surfs) if sids is None else sids
        if not sids:
            return np.full(len(self.P), np.inf)
        return np.min([np.abs(self.side(s)) for s in sids], axis=0)


def planes_of(t4):
    """(normal, d) with normal.x + d = 0 for every plane SURF (transforms applied)."""
    out = []
    for sid, (kind, p, tr) in t4.surfs.items():
        if kind not in PLANE_TYPES:
            continue
        if kind == 'PLANE':
            nrm, d = np.array(p[:3], float), p[3]
        else:
            nrm = np.zeros(3); nrm['XYZ'.index(kind[-1])] = 1.0; d = -p[0]
        if tr is not None:
            t = t4.transforms[tr]
            M = np.array(t[3:]).reshape(3, 3)
            # f(M^T (x - t)) = n.(M^T(x-t)) + d = (M n).x - (M n).t + d
            n2 = M @ nrm
            d = d - n2 @ np.array(t[:3])
            nrm = n2
        out.append((nrm, d))
    return out


def all_planes(t4):
    return all(k in PLANE_TYPES for k, _, _ in t4.surfs.values())
