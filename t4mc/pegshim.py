"""Minimal interpreter for the TatSu-EBNF subset used by MIP/geom/grammars/geom.ebnf.

Reads the grammar text from the repo (so grammar edits are seen), implements
PEG ordered choice + sequences + named elements + literals + regex patterns +
rule refs + '$', with Warth-style seed growing for direct left recursion, and
calls the *real* semantics object exactly like TatSu does (method per rule name).
"""
import re


class AST(dict):
    def __getattr__(self, k):
        return self.get(k)


class ParseError(Exception):
    pass


_tok = re.compile(r"""\s*(?:
    (?P<name>[A-Za-z_][A-Za-z_0-9]*)\s*:(?!:) |   # named element prefix  l:
    (?P<ref>[A-Za-z_][A-Za-z_0-9]*) |
    '(?P<lit>[^']*)' |
    /(?P<pat>(?:[^/\\]|\\.)*)/ |
    (?P<op>[|=;$])
)""", re.X)


def parse_grammar(text):
    rules = {}
    order = []
    pos = 0
    toks = []
    text = text.strip()
    while pos < len(text):
        m = _tok.match(text, pos)
        if not m:
            raise ValueError('grammar syntax not supported at %r' % text[pos:pos+30])
        pos = m.end()
        kind = m.lastgroup
        toks.append((kind, m.group(kind)))
    i = 0
    while i < len(toks):
        kind, val = toks[i]
        assert kind == 'ref', toks[i]
        name = val
        assert toks[i+1] == ('op', '='), toks[i+1]
        i += 2
        alts = [[]]
        pending = None
        while toks[i] != ('op', ';'):
            kind, val = toks[i]
            if kind == 'op' and val == '|':
                if alts[-1]:
                    alts.append([])
            elif kind == 'name':
                pending = val
            else:
                if kind == 'op' and val == '$':
                    el = ('eof', None)
                elif kind == 'ref':
                    el = ('ref', val)
                elif kind == 'lit':
                    el = ('lit', val)
                elif kind == 'pat':
                    el = ('pat', re.compile(val))
                else:
                    raise ValueError(toks[i])
                alts[-1].append((pending, el))
                pending = None
            i += 1
        i += 1
        rules[name] = alts
        order.append(name)
    return rules, order[0]


class ShimParser:
    def __init__(self, grammar_text):
        self.rules, self.start = parse_grammar(grammar_text)

    def parse(self, text, semantics=None, **_kw):
        self.text = text
        self.sem = semantics
        self.memo = {}
        self.farthest = 0
        res = self._rule(self.start, 0)
        if res is None:
            raise self._error()
        return res[0]

    def _error(self):
        import tatsu.exceptions
        msg = 'shim: parse failed at %d in %r' % (self.farthest, self.text)
        try:
            return tatsu.exceptions.FailedParse(msg)
        except Exception:
            return tatsu.exceptions.ParseException(msg)

    def _rule(self, name, pos):
        key = (name, pos)
        if key in self.memo:
            return self.memo[key]
        # seed: fail
        self.memo[key] = None
        best = None
        while True:
            res = self._alts(name, pos)
            if res is None or (best is not None and res[1] <= best[1]):
                break
            best = res
            self.memo[key] = best
        self.memo[key] = best
        return best

    def _alts(self, name, pos):
        names = [n for alt in self.rules[name] for n, _ in alt if n]
        for alt in self.rules[name]:
            p = pos
            cst = []
            named = {}
            ok = True
            for nm, (kind, arg) in alt:
                # skip whitespace like TatSu's default
                while p < len(self.text) and self.text[p].isspace():
                    p += 1
                if kind == 'lit':
                    if self.text.startswith(arg, p):
                        val, p = arg, p + len(arg)
                    else:
                        ok = False
                elif kind == 'pat':
                    m = arg.match(self.text, p)
                    if m:
                        val, p = m.group(0), m.end()
                    else:
                        ok = False
                elif kind == 'eof':
                    if p != len(self.text):
                        ok = False
                    val = None
                elif kind == 'ref':
                    r = self._rule(arg, p)
                    if r is None:
                        ok = False
                    else:
                        val, p = r
                if not ok:
                    self.farthest = max(self.farthest, p)
                    break
                if nm:
                    named[nm] = val
                elif kind != 'eof':
                    cst.append(val)
            if not ok:
                continue
            if names:
                node = AST((n, named.get(n)) for n in names)
            elif len(cst) == 1:
                node = cst[0]
            else:
                node = cst
            meth = getattr(self.sem, name, None) if self.sem is not None else None
            if meth is not None:
                node = meth(node)
            return node, p
        return None


def install():
    from pkgutil import get_data
    import MIP.geom.parsegeom as pg
    grammar = get_data('MIP.geom.grammars', 'geom.ebnf').decode('utf-8')
    pg.parser = ShimParser(grammar)
    return pg.parser


# The self-test checks the interpreter itself (trusted base) against a frozen copy of the grammar and its own
# tiny semantic actions, so that a change to the repository's grammar or semantics is reported by the property
# checks (C11, C01) as a violation and never as a harness failure.
_FROZEN_GRAMMAR = """start = union $;

union =
    | l:union o:':' r:isect
    | o:isect;

isect =
    | l:isect o:'*' r:operand
    | o:operand;

operand =
    | o:cell
    | o:surface
    | l:'_(' o:compl r:')'
    | l:'('  o:union r:')'
    | l:'^(' o:complcell r:')';

compl = union;

surface = /[-+]{0,1}\\d+(?:\\.\\d)?/;

cell = /_\\d+/;

complcell =  /\\d+/;
"""


class _TestSemantics:
    def surface(self, ast):
        return ('S', ast)

    def complcell(self, ast):
        return ('C', ast)

    def operand(self, ast):
        if ast.l == '_(':
            return ('not', ast.o)
        if ast.l == '^(':
            return ('cell', ast.o)
        return ast.o

    def isect(self, ast):
        return ('*', ast.l, ast.r) if ast.o == '*' else ast.o

    def union(self, ast):
        return (':', ast.l, ast.r) if ast.o == ':' else ast.o


_SELFTEST = [
    ('1', ('S', '1')),
    ('-1*2', ('*', ('S', '-1'), ('S', '2'))),
    ('1:2', (':', ('S', '1'), ('S', '2'))),
    ('1*2:3', (':', ('*', ('S', '1'), ('S', '2')), ('S', '3'))),
    ('1:2*3', (':', ('S', '1'), ('*', ('S', '2'), ('S', '3')))),
    ('1*2*3', ('*', ('*', ('S', '1'), ('S', '2')), ('S', '3'))),
    ('1:2:3', (':', (':', ('S', '1'), ('S', '2')), ('S', '3'))),
    ('(1:2)*3', ('*', (':', ('S', '1'), ('S', '2')), ('S', '3'))),
    ('(1:2)*(3:4)', ('*', (':', ('S', '1'), ('S', '2')), (':', ('S', '3'), ('S', '4')))),
    ('_(1*2)', ('not', ('*', ('S', '1'), ('S', '2')))),
    ('^(5)', ('cell', ('C', '5'))),
    ('1*^(5)', ('*', ('S', '1'), ('cell', ('C', '5')))),
    ('-4.2*1', ('*', ('S', '-4.2'), ('S', '1'))),
    ('+3', ('S', '+3')),
    (' 1 *  2 ', ('*', ('S', '1'), ('S', '2'))),
]


def selftest():
    """Pin the interpreter against a table (frozen grammar, own semantic actions); raises RuntimeError on any
    difference (harness failure, exit 2).  Also checks that the repository's grammar file is one the
    interpreter can load."""
    p = ShimParser(_FROZEN_GRAMMAR)
    sem = _TestSemantics()
    for text, want in _SELFTEST:
        got = p.parse(text, semantics=sem)
        if got != want:
            raise RuntimeError('PEG shim self-test failed on %r: got %r, want %r' % (text, got, want))
    import tatsu.exceptions
    for bad in ('1:', '(1', '1)', '', '1**2', '1 2'):
        try:
            p.parse(bad, semantics=sem)
        except tatsu.exceptions.ParseException:
            continue
        raise RuntimeError('PEG shim accepted malformed expression %r' % bad)
    import MIP.geom.parsegeom as pg
    if not isinstance(pg.parser, ShimParser):
        install()
    return len(_SELFTEST)
