"""Reference semantics of MCNP surfaces, macrobodies and rigid motions, written
from the MCNP manual's definitions.  Does not import the converter.

A reference surface is a RefSurf:
    comps : list of (function P->values, degree) -- the polynomial components
            whose zero sets make up the surface (for identification)
    neg(P): boolean array, the region MCNP gives negative sense
    pos(P): boolean array, the region MCNP gives positive sense
"""
import math

import numpy as np


class RefSurf:
    def __init__(self, comps, neg, pos=None, name=''):
        self.comps = comps
        self._neg = neg
        self._pos = pos
        self.name = name

    def neg(self, P):
        return self._neg(P)

    def pos(self, P):
        if self._pos is not None:
            return self._pos(P)
        return ~self._neg(P)

    def moved(self, motion):
        """Image of the surface under x -> motion(x) = R x + O (active)."""
        inv = motion.inverse_points
        return RefSurf([(lambda P, f=f: f(inv(P)), d) for f, d in self.comps],
                       lambda P: self._neg(inv(P)),
                       (lambda P: self._pos(inv(P))) if self._pos is not None else None,
                       self.name + '+tr')


def simple(f, degree, name=''):
    return RefSurf([(f, degree)], lambda P: f(P) < 0, lambda P: f(P) > 0, name)


def plane(n, D):
    """n.x - D"""
    n = np.asarray(n, float)
    return simple(lambda P: P @ n - D, 1, 'plane')


def sphere(c, r):
    c = np.asarray(c, float)
    return simple(lambda P: ((P - c) ** 2).sum(1) - r * r, 2, 'sphere')


def cylinder(c, u, r):
    c = np.asarray(c, float); u = np.asarray(u, float) / np.linalg.norm(u)

    def f(P):
        d = P - c
        a = d @ u
        return (d * d).sum(1) - a * a - r * r
    return simple(f, 2, 'cylinder')


def cone(apex, u, t2, sheet=0):
    """rho^2 - t2 * a^2, a = axial coordinate; sheet = +1/-1 selects a nappe."""
    apex = np.asarray(apex, float); u = np.asarray(u, float) / np.linalg.norm(u)

    def parts(P):
        d = P - apex
        a = d @ u
        return (d * d).sum(1) - a * a - t2 * a * a, a
    f = lambda P: parts(P)[0]
    if not sheet:
        return simple(f, 2, 'cone')
    g = lambda P: (P - apex) @ u
    neg = lambda P: (lambda q, a: (q < 0) & (a * sheet > 0))(*parts(P))
    pos = lambda P: (lambda q, a: ((q > 0) & (a != 0)) | ((a * sheet < 0) & (q != 0)))(*parts(P))
    return RefSurf([(f, 2), (g, 1)], neg, pos, 'cone1')


def quadric(A, B, C, D, E, F, G, H, J, K):
    def f(P):
        x, y, z = P[:, 0], P[:, 1], P[:, 2]
        return (A * x * x + B * y * y + C * z * z + D * x * y + E * y * z + F * z * x
                + G * x + H * y + J * z + K)
    return simple(f, 2, 'gq')


def special_quadric(A, B, C, D, E, F, G, x0, y0, z0):
    def f(P):
        x, y, z = P[:, 0] - x0, P[:, 1] - y0, P[:, 2] - z0
        return A * x * x + B * y * y + C * z * z + 2 * D * x + 2 * E * y + 2 * F * z + G
    return simple(f, 2, 'sq')


def torus(c, u, A, B, C):
    """(a/B)^2 + ((rho-A)/C)^2 - 1, quartic polynomial form for ring tori."""
    c = np.asarray(c, float); u = np.asarray(u, float) / np.linalg.norm(u)
    if not A > C:
        raise ValueError('ring torus required')

    def f(P):
        d = P - c
        a = d @ u
        rho2 = (d * d).sum(1) - a * a
        q = a * a / (B * B) + (rho2 + A * A) / (C * C) - 1.0
        return q * q - 4 * A * A * rho2 / C ** 4
    return simple(f, 4, 'torus')


AXES = {'x': (1.0, 0, 0), 'y': (0, 1.0, 0), 'z': (0, 0, 1.0)}


def three_point_plane(pts):
    a, b, c = (np.array(pts[i:i + 3], float) for i in (0, 3, 6))
    n = np.cross(b - a, c - a)
    L = np.linalg.norm(n)
    if L < 1e-12:
        raise ValueError('collinear points')
    n = n / L
    D = float(n @ a)
    # MCNP: the origin has negative sense; if the plane contains the origin,
    # (0,0,+inf) positive, then (0,+inf,0), then (+inf,0,0)
    tol = 1e-12
    if abs(D) > tol:
        s = 1 if D > 0 else -1
    elif abs(n[2]) > tol:
        s = 1 if n[2] > 0 else -1
    elif abs(n[1]) > tol:
        s = 1 if n[1] > 0 else -1
    else:
        s = 1 if n[0] > 0 else -1
    return plane(s * n, s * D)


def mcnp_surface(mn, p):
    """Reference surface for mnemonic mn with parameter list p."""
    mn = mn.lower()
    p = [float(x) for x in p]
    if mn == 'p':
        if len(p) == 4:
            return plane(p[:3], p[3])
        if len(p) == 9:
            return three_point_plane(p)
        raise ValueError('p needs 4 or 9 entries')
    if mn in ('px', 'py', 'pz'):
        return plane(AXES[mn[1]], p[0])
    if mn == 'so':
        return sphere((0, 0, 0), p[0])
    if mn == 's':
        return sphere(p[:3], p[3])
    if mn in ('sx', 'sy', 'sz'):
        c = np.array(AXES[mn[1]]) * p[0]
        return sphere(c, p[1])
    if mn in ('c/x', 'c/y', 'c/z'):
        ax = 'xyz'.index(mn[2])
        c = np.zeros(3)
        others = [i for i in range(3) if i != ax]
        c[others[0]], c[others[1]] = p[0], p[1]
        return cylinder(c, AXES[mn[2]], p[2])
    if mn in ('cx', 'cy', 'cz'):
        return cylinder((0, 0, 0), AXES[mn[1]], p[0])
    if mn in ('k/x', 'k/y', 'k/z'):
        sheet = int(p[4]) if len(p) > 4 else 0
        return cone(p[:3], AXES[mn[2]], p[3], sheet)
    if mn in ('kx', 'ky', 'kz'):
        sheet = int(p[2]) if len(p) > 2 else 0
        return cone(np.array(AXES[mn[1]]) * p[0], AXES[mn[1]], p[1], sheet)
    if mn == 'sq':
        return special_quadric(*p)
    if mn == 'gq':
        return quadric(*p)
    if mn in ('tx', 'ty', 'tz'):
        return torus(p[:3], AXES[mn[1]], p[3], p[4], p[5])
    if mn in ('x', 'y', 'z'):
        ax = AXES[mn]
        if len(p) == 2:
            return plane(ax, p[0])
        if len(p) == 4:
            x1, r1, x2, r2 = p
            if x1 == x2:
                return plane(ax, x1)
            if r1 == r2:
                return cylinder((0, 0, 0), ax, r1)
            t = (r2 - r1) / (x2 - x1)
            x0 = x1 - r1 / t           # apex
            xfar = x1 if r1 > r2 else x2   # the point away from the apex (either point may be the apex itself)
            sheet = 1 if xfar > x0 else -1
            return cone(np.array(ax) * x0, ax, t * t, sheet)
        raise ValueError('x/y/z with %d entries' % len(p))
    raise KeyError(mn)


# ---------------------------------------------------------------------------
# rigid motions

class Motion:
    """MCNP transformation: x_main = O + B^T x_aux, B[i][j] = cosine of the
    angle between main axis j ... stored row-wise as on the TR card
    (B1..B9 = xx' yx' zx' xy' yy' zy' xz' yz' zz'), i.e. row i of B holds the
    components *in the main frame* of auxiliary axis i."""

    def __init__(self, O=(0, 0, 0), B=None):
        self.O = np.asarray(O, float)
        self.B = np.eye(3) if B is None else np.asarray(B, float).reshape(3, 3)

    def points(self, P):
        """main-frame coordinates of aux-frame points (active motion of objects)."""
        return P @ self.B + self.O          # rows: B^T p + O

    def inverse_points(self, P):
        return (P - self.O) @ self.B.T      # rows: B (p - O)

    def then(self, outer):
        """self applied first, then outer: x -> outer(self(x))."""
        # outer.B^T (self.B^T x + self.O) + outer.O
        return Motion(self.O @ outer.B + outer.O, self.B @ outer.B)

    def card_entries(self, degrees=False):
        b = self.B.flatten()
        if degrees:
            b = [math.degrees(math.acos(max(-1.0, min(1.0, x)))) for x in b]
        return list(self.O) + list(b)

    def is_identity(self):
        return np.allclose(self.O, 0) and np.allclose(self.B, np.eye(3))


def rotation(axis, deg):
    axis = np.asarray(axis, float)
    axis = axis / np.linalg.norm(axis)
    a = math.radians(deg)
    K = np.array([[0, -axis[2], axis[1]], [axis[2], 0, -axis[0]], [-axis[1], axis[0], 0]])
    return np.eye(3) + math.sin(a) * K + (1 - math.cos(a)) * K @ K


def signed_permutations():
    """The 24 proper rotations that map coordinate axes onto coordinate axes."""
    import itertools
    out = []
    for perm in itertools.permutations(range(3)):
        for signs in itertools.product((1, -1), repeat=3):
            M = np.zeros((3, 3))
            for i, (j, s) in enumerate(zip(perm, signs)):
                M[i, j] = s
            if abs(np.linalg.det(M) - 1) < 1e-9:
                out.append(M)
    return out
