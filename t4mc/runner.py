"""Generic runner: tiers, worker pool, aggregation, known findings, replay
artefacts, evidence, exit codes.

A property module provides
    ID, LEVEL, RULE (str), ASSUMPTIONS (list)
    scenarios(tier) -> list of Scn
    check_state(scn_name, state) -> Verdict dict   (runs the real converter)
    optional: canaries() -> list of (name, bool)   oracle self-tests
    optional: finish(agg) -> dict of extra coverage keys / raises Vacuous
"""
import hashlib
import importlib
import json
import multiprocessing as mp
import os
import subprocess
import sys
import time
import traceback

from . import explore

VERIF = os.path.dirname(os.path.dirname(os.path.abspath(__file__)))


class Scn:
    def __init__(self, name, build, quick=None, thorough=None, note=''):
        """quick/thorough: maximal number of deviations (None = full product)."""
        self.name, self.build, self.quick, self.thorough, self.note = name, build, quick, thorough, note

    def bound(self, tier):
        return self.quick if tier == 'quick' else self.thorough


class Vacuous(Exception):
    pass


def sha(*parts):
    h = hashlib.sha1()
    for p in parts:
        h.update(repr(p).encode() if not isinstance(p, (str, bytes)) else
                 (p.encode() if isinstance(p, str) else p))
        h.update(b'\0')
    return h.hexdigest()[:16]


def verdict(ok, state=None, cls=None, msg='', out=None, nontrivial=True, stats=None,
            deck=None, options=None, extra=None):
    v = dict(ok=bool(ok), cls=cls, msg=msg, out=out, nontrivial=bool(nontrivial),
             stats=stats or {})
    if deck is None and state is not None:
        deck = getattr(state, 'deck_text', None)
        options = getattr(state, 'options', None)
    v['deck'] = deck
    v['options'] = list(options or [])
    v['key'] = sha(deck or '', v['options'])
    if extra:
        v['extra'] = extra
    return v


# ---------------------------------------------------------------------------
# worker side

_mod = None
_scn = None


def _load(mod_id):
    global _mod, _scn
    if _mod is None or _mod.ID != mod_id:
        _mod = importlib.import_module('t4mc.props.' + mod_id.lower())
        _scn = None
    return _mod


def all_scenarios(mod, tier):
    """the module's scenarios plus, for modules that opt in (DECORATE = True or a list of scenario names), one
    shadow scenario per scenario: every meaning-preserving decoration of decorate.DECOS x at most one (quick) /
    two (thorough) deviations of the scenario's own choice points"""
    scns = list(mod.scenarios(tier))
    want = getattr(mod, 'DECORATE', None)
    if want and not os.environ.get('T4MC_NO_DECO'):
        from . import decorate
        for s in list(scns):
            if want is True or s.name in want:
                sh = Scn(s.name + '~deco', decorate.shadow_build(s.build), 1, 2,
                         'every decoration (IMP data card, number spellings, other cell parameters, case, '
                         'continuations, comments, tabs, blanks, message block) x <= 1 / 2 deviations of: ' + s.note)
                sh.check_name = s.name
                scns.append(sh)
    return scns


def _scenarios(mod, tier):
    global _scn
    if _scn is None or _scn[0] != tier:
        _scn = (tier, {s.name: s for s in all_scenarios(mod, tier)})
    return _scn[1]


def run_one(mod_id, tier, scn_name, trace, keep_text=False):
    mod = _load(mod_id)
    scn = _scenarios(mod, tier)[scn_name]
    ch = explore.Chooser(trace)
    state = scn.build(ch)
    if tuple(ch.trace) != tuple(trace):
        raise explore.ReplayDivergence('%s %s: trace %r replayed as %r'
                                       % (mod_id, scn_name, trace, ch.trace))
    try:
        v = mod.check_state(getattr(scn, 'check_name', scn_name), state)
    except Exception as e:   # a crash of the oracle is a harness error, not a verdict
        v = verdict(False, state, cls={'harness': type(e).__name__},
                    msg='harness exception: ' + traceback.format_exc()[-1500:])
        v['harness_error'] = True
    v['scn'] = scn_name
    v['trace'] = list(trace)
    v['choices'] = ch.described()
    if v['ok'] and not keep_text:
        v['deck'] = None
    return v


_cov = None
_cov_n = 0


def _work(chunk):
    global _cov_n
    mod_id, tier, scn_name, traces = chunk
    out = []
    for t in traces:
        out.append(run_one(mod_id, tier, scn_name, t))
    if _cov is not None:
        _cov_n += 1
        if _cov_n % 10 == 0 or len(traces) < 24:
            _cov.save()
    return out


def _init_worker():
    global _cov
    os.environ['PYTHONHASHSEED'] = os.environ.get('PYTHONHASHSEED', '0')
    if os.environ.get('T4MC_COVERAGE'):
        # development aid (tools/blindspots.sh): which lines of the converter do the generated decks reach
        import coverage
        repo = os.environ.get('T4MC_REPO', '/repo')
        _cov = coverage.Coverage(data_file=os.path.join(os.environ['T4MC_COVERAGE'], 'cov'), data_suffix=True,
                                 source=[os.path.join(repo, 't4_geom_convert'), os.path.join(repo, 'MIP')])
        _cov.start()
    from . import env
    env.install()


# ---------------------------------------------------------------------------
# known findings

def load_findings():
    p = os.path.join(VERIF, 'known_findings.json')
    if not os.path.exists(p):
        return []
    with open(p) as f:
        return json.load(f).get('findings', [])


def match_finding(findings, prop, cls):
    if not cls:
        return None
    for f in findings:
        if f.get('property') != prop or f.get('status') != 'known':
            continue
        m = f.get('match', {})
        if m and all(cls.get(k) == v for k, v in m.items()):
            return f
    return None


# ---------------------------------------------------------------------------

def write_replay(prop, tier, v):
    rdir = os.environ.get('T4MC_REPLAY_DIR') or os.path.join(VERIF, 'replays')
    os.makedirs(rdir, exist_ok=True)
    name = '%s-%s.json' % (prop, sha(v['scn'], v['trace'], v.get('cls')))
    path = os.path.join(rdir, name)
    with open(path, 'w') as f:
        json.dump(dict(property=prop, tier=tier, scenario=v['scn'], trace=v['trace'],
                       choices=v.get('choices'), deck_text=v.get('deck'),
                       options=v.get('options'), classification=v.get('cls'),
                       message=v.get('msg'), extra=v.get('extra')), f, indent=1)
    return path


def replay(mod_id, path):
    mod = _load(mod_id)
    if hasattr(mod, 'replay'):
        return mod.replay(path)
    with open(path) as f:
        r = json.load(f)
    from . import env
    env.install()
    v = run_one(mod_id, r.get('tier', 'quick'), r['scenario'], tuple(r['trace']), keep_text=True)
    print('property   :', mod_id)
    print('scenario   :', r['scenario'], 'trace', r['trace'])
    print('choices    :', v.get('choices'))
    print('options    :', v.get('options'))
    print('--- deck ---')
    print(v.get('deck'))
    print('--- verdict ---')
    print('ok =', v['ok'], ' class =', v.get('cls'))
    print(v.get('msg'))
    if v.get('extra'):
        print(json.dumps(v['extra'], indent=1)[:6000])
    return 0 if v['ok'] else 1


def recheck_fresh(mod_id, tier, v):
    """Re-execute one state in a fresh interpreter; returns the new verdict."""
    code = ('import sys, json; sys.path.insert(0, %r)\n'
            'from t4mc import runner\n'
            'v = runner.run_one(%r, %r, %r, tuple(%r), keep_text=False)\n'
            'print("RECHECK" + json.dumps(dict(ok=v["ok"], cls=v.get("cls"))))\n'
            % (VERIF, mod_id, tier, v['scn'], list(v['trace'])))
    envv = dict(os.environ, PYTHONHASHSEED='0', PYTHONDONTWRITEBYTECODE='1')
    p = subprocess.run([sys.executable, '-c', code], capture_output=True, text=True, env=envv,
                       cwd=VERIF)
    for line in p.stdout.splitlines():
        if line.startswith('RECHECK'):
            return json.loads(line[7:])
    raise RuntimeError('fresh re-execution failed:\n' + p.stdout[-2000:] + p.stderr[-2000:])


def main(mod_id, tier, seed):
    t0 = time.time()
    os.environ.setdefault('PYTHONHASHSEED', '0')
    os.environ.setdefault('PYTHONDONTWRITEBYTECODE', '1')
    sys.dont_write_bytecode = True
    mod = _load(mod_id)
    from . import env, pegshim
    env.install()
    env.scratch_base()
    pegshim.selftest()
    if hasattr(mod, 'custom_main'):
        return mod.custom_main(tier, seed, sys.modules[__name__])
    jobs = int(os.environ.get('T4MC_JOBS', '16'))
    budget = float(os.environ.get('T4MC_BUDGET_S', '200' if tier == 'quick' else '3000'))
    findings = load_findings()

    # oracle canaries.  A "-baseline" canary is one real state that must agree; when it does not, the code
    # under test is broken at that state and the exploration below will report it - the oracle-mutation
    # canaries are then meaningless and are skipped.  An oracle mutation that is not detected although the
    # baseline agrees is a weakness of the harness: exit 2 unless the exploration reports violations.
    canary_results = []
    canary_failed = []
    if hasattr(mod, 'canaries'):
        try:
            canary_results = list(mod.canaries())
        except Exception as e:   # the converter may crash on the canary state of a broken tree
            canary_results = [('canaries-raised-%s-baseline' % type(e).__name__, False)]
        base_bad = [n for n, ok in canary_results if n.endswith('-baseline') and not ok]
        if base_bad:
            print('NOTE: canary baseline state(s) disagree: %s (oracle-mutation canaries skipped)' % base_bad)
        else:
            canary_failed = [n for n, ok in canary_results if not ok]

    scns = all_scenarios(mod, tier)
    if os.environ.get('T4MC_ONLY'):     # development aid: a comma-separated subset of the scenarios
        scns = [s for s in scns if s.name.split('~')[0] in os.environ['T4MC_ONLY'].split(',')]
    enums = {s.name: explore.LevelEnumerator(s.build, s.bound(tier)) for s in scns}
    order = list(scns)
    if seed:
        k = seed % len(order)
        order = order[k:] + order[:k]

    agg = dict(executions=0, keys=set(), outs=set(), nontrivial=set(), errors={},
               stats={}, bad=[], harness=[], samples=[], per_scn={})
    cap_hit = False
    ctx = mp.get_context('fork')
    pool = ctx.Pool(jobs, initializer=_init_worker)
    CH = int(os.environ.get('T4MC_CHUNK', '24'))

    def gen_chunks(scn, cost):
        buf = []
        for tr in enums[scn.name].level(cost):
            buf.append(tr)
            if len(buf) >= CH:
                yield (mod_id, tier, scn.name, buf)
                buf = []
        if buf:
            yield (mod_id, tier, scn.name, buf)

    def consume(results):
        for vs in results:
            for v in vs:
                agg['executions'] += 1
                ps = agg['per_scn'].setdefault(v['scn'], dict(executions=0, violations=0))
                ps['executions'] += 1
                agg['keys'].add(v['key'])
                if v.get('out') is not None:
                    agg['outs'].add(v['out'])
                if v['nontrivial']:
                    agg['nontrivial'].add(v['key'])
                for k, x in v['stats'].items():
                    if isinstance(x, (int, float)):
                        agg['stats'][k] = agg['stats'].get(k, 0) + x
                    else:
                        agg['stats'].setdefault(k, set()).update(x)
                if v.get('harness_error'):
                    agg['harness'].append(v)
                elif not v['ok']:
                    ps['violations'] += 1
                    agg['bad'].append(v)

    inflight = []

    task_timeout = float(os.environ.get('T4MC_TASK_TIMEOUT', '900'))
    hung = []

    def drain(limit):
        while len(inflight) > limit:
            r, chunk = inflight.pop(0)
            try:
                consume([r.get(timeout=task_timeout)])
            except mp.TimeoutError:
                # the converter did not finish on these states: reported as a violation (class timeout)
                hung.append(chunk)

    try:
        cost = 0
        while True:
            active = [s for s in order if not enums[s.name].exhausted
                      and (s.bound(tier) is None or cost <= s.bound(tier))]
            if not active:
                break
            for s in active:
                for c in gen_chunks(s, cost):
                    inflight.append((pool.apply_async(_work, (c,)), c))
                    drain(4 * jobs)
                    if time.time() - t0 > budget:
                        cap_hit = True
                        break
                if cap_hit:
                    # the level was interrupted: it does not count as completed
                    enums[s.name].completed = cost - 1
                    break
            if cap_hit:
                break
            cost += 1
        drain(0)
    finally:
        pool.close()
        pool.terminate()

    # samples: re-render the first states of each scenario in the main process
    for s in scns:
        en = explore.LevelEnumerator(s.build, 1)
        n = 0
        for c in (0, 1):
            for tr in en.level(c):
                st = s.build(explore.Chooser(tr))
                agg['samples'].append(dict(scenario=s.name, trace=list(tr),
                                           options=list(getattr(st, 'options', []) or []),
                                           deck=getattr(st, 'deck_text', str(st))[:1500]))
                n += 1
                if n >= 2:
                    break
            if n >= 2:
                break

    if hung:
        c = hung[0]
        path = os.path.join(os.environ.get('T4MC_REPLAY_DIR') or os.path.join(VERIF, 'replays'),
                            '%s-timeout-%s.json' % (mod_id, sha(c[2], c[3][0])))
        os.makedirs(os.path.dirname(path), exist_ok=True)
        with open(path, 'w') as f:
            json.dump(dict(property=mod_id, tier=tier, scenario=c[2], traces=[list(t) for t in c[3]],
                           classification={'kind': 'timeout'},
                           message='no answer within %.0f s for one of these states' % task_timeout), f, indent=1)
        print('VIOLATION property=%s replay=%s' % (mod_id, path))
        print('  class={"kind": "timeout"} chunks=%d: the conversion of a generated state did not finish within %.0f s'
              % (len(hung), task_timeout))
        return 1

    # ---- harness errors
    if agg['harness']:
        v = agg['harness'][0]
        print('HARNESS-ERROR: %d states crashed the oracle; first: %s %s\n%s'
              % (len(agg['harness']), v['scn'], v['trace'], v['msg']))
        return 2

    # ---- classify violations
    classes = {}
    for v in agg['bad']:
        ck = json.dumps(v.get('cls'), sort_keys=True)
        cur = classes.get(ck)
        if cur is None or (len(v['trace']), sum(v['trace'])) < (len(cur[0]['trace']), sum(cur[0]['trace'])):
            classes[ck] = (v, (cur[1] if cur else 0) + 1)
        else:
            classes[ck] = (cur[0], cur[1] + 1)
    new_violations = []
    known_hit = {}
    for ck, (v, cnt) in sorted(classes.items()):
        f = match_finding(findings, mod_id, v.get('cls'))
        if f is not None:
            known_hit.setdefault(f['what'], 0)
            known_hit[f['what']] += cnt
        else:
            new_violations.append((v, cnt))
    for what, cnt in sorted(known_hit.items()):
        print('KNOWN-FINDING: property=%s %s [%d states]' % (mod_id, what, cnt))
    rc = 0
    replay_paths = []
    for v, cnt in new_violations[:int(os.environ.get('T4MC_MAXVIOL', '12'))]:
        try:
            again = recheck_fresh(mod_id, tier, v)
        except Exception as e:
            print('HARNESS-ERROR: %s' % e)
            return 2
        if again['ok'] or again.get('cls') != v.get('cls'):
            print('HARNESS-ERROR: verdict of %s %s did not reproduce in a fresh process (%s vs %s)'
                  % (v['scn'], v['trace'], v.get('cls'), again))
            return 2
        path = write_replay(mod_id, tier, v)
        replay_paths.append(path)
        print('VIOLATION property=%s replay=%s' % (mod_id, path))
        print('  class=%s states=%d\n  %s' % (json.dumps(v.get('cls'), sort_keys=True), cnt,
                                            (v.get('msg') or '').replace('\n', '\n  ')[:1200]))
        rc = 1

    # ---- evidence
    cov = dict(
        states=len(agg['keys']),
        transitions=sum(e.edges for e in enums.values()),
        traces_validated_against_impl=agg['executions'],
        evaluations=agg['executions'],
        distinct_nontrivial=len(agg['nontrivial']),
        rule=getattr(mod, 'RULE', ''),
        samples=agg['samples'][:8],
        exhaustive=(not cap_hit) and all(e.exhausted and not e.truncated for e in enums.values()),
        bounded_exhaustive=(not cap_hit),
        cap_hit=cap_hit,
        budget_s=budget,
        distinct_outputs=len(agg['outs']),
        choice_points=sum(e.choice_points for e in enums.values()),
        inadmissible_skipped=sum(e.inadmissible for e in enums.values()),
        scenarios={s.name: dict(deviation_bound=s.bound(tier),
                                bound_completed=enums[s.name].completed,
                                full_product_completed=bool(enums[s.name].exhausted and
                                                            not enums[s.name].truncated),
                                executions=agg['per_scn'].get(s.name, {}).get('executions', 0),
                                violations=agg['per_scn'].get(s.name, {}).get('violations', 0),
                                note=s.note)
                   for s in scns},
        oracle_canaries=[n for n, _ in canary_results],
        violation_classes=len(classes),
        known_finding_states=sum(known_hit.values()),
        known_findings_hit=sorted(known_hit),
    )
    for k, x in agg['stats'].items():
        cov['stat_' + k] = len(x) if isinstance(x, set) else x
    extra_rc = 0
    if hasattr(mod, 'finish'):
        try:
            cov.update(mod.finish(agg, tier) or {})
        except Vacuous as e:
            print('HARNESS-ERROR: vacuity guard: %s' % e)
            extra_rc = 2
    ev = dict(property_id=mod_id, tier=tier, seed=seed, level=mod.LEVEL, coverage=cov,
              assumptions=list(getattr(mod, 'ASSUMPTIONS', [])),
              wall_s=round(time.time() - t0, 2), violations=len(new_violations))
    evdir = os.environ.get('T4MC_EVIDENCE_DIR') or os.path.join(VERIF, 'evidence')
    os.makedirs(evdir, exist_ok=True)
    with open(os.path.join(evdir, mod_id + '.json'), 'w') as f:
        json.dump(ev, f, indent=1, default=str)
    print('%s tier=%s executions=%d states=%d outputs=%d nontrivial=%d transitions=%d '
          'violations=%d known=%d cap_hit=%s wall=%.1fs'
          % (mod_id, tier, agg['executions'], len(agg['keys']), len(agg['outs']),
             len(agg['nontrivial']), cov['transitions'], len(new_violations),
             sum(known_hit.values()), cap_hit, time.time() - t0))
    if not rc and canary_failed:
        print('HARNESS-ERROR: oracle canaries not detected: %s' % canary_failed)
        return 2
    return rc or extra_rc
