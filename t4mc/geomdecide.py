"""Finite decision procedures for "for all points of R^3".

* witnesses(planes): a point in every cell of a plane arrangement.
* identify(f, g, degree): polynomial identity f = lambda*g from the values on
  a unisolvent point set (principal lattice of the degree).
* probe_points(...): plane witnesses refined by a lattice for mixed decks.
"""
import itertools

import numpy as np

TOL = 1e-9
CLEAR = 1e-6


def cluster(planes):
    """planes: list of (n(3), d) meaning n.x + d = 0; normalise, merge coincident."""
    out = []
    for n, d in planes:
        n = np.asarray(n, float)
        L = np.linalg.norm(n)
        if L < 1e-300:
            continue
        n, d = n / L, d / L
        k = next(i for i in range(3) if abs(n[i]) > 1e-12)
        if n[k] < 0:
            n, d = -n, -d
        if not any(np.allclose(n, m, atol=1e-9) and abs(d - e) < 1e-8 for m, e in out):
            out.append((n, d))
    return out


def witnesses(planes, eps=1e-3, extra_box=10.0):
    """One point (at least) in every 3-cell of the arrangement of `planes`.

    3D -> 2D -> 1D recursion: for each plane, the lines it shares with the
    others; for each line the intervals cut by the other lines; midpoints are
    pushed off the line inside the plane (+-eps) and off the plane (+-eps).
    Returned points keep a clearance > CLEAR from every plane.
    """
    P = cluster(planes)
    m = len(P)
    if m == 0:
        return np.zeros((1, 3)) + 0.1234
    N = np.array([n for n, _ in P])
    D = np.array([d for _, d in P])
    W = []
    for i in range(m):
        n, d = N[i], D[i]
        a = np.cross(n, [1, 0, 0]) if abs(n[0]) < 0.9 else np.cross(n, [0, 1, 0])
        a /= np.linalg.norm(a)
        b = np.cross(n, a)
        p0 = -d * n
        lines = []
        for j in range(m):
            if j == i:
                continue
            la, lb, lc = N[j] @ a, N[j] @ b, N[j] @ p0 + D[j]
            L = np.hypot(la, lb)
            if L < 1e-9:
                continue        # parallel plane
            la, lb, lc = la / L, lb / L, lc / L
            if la < -1e-12 or (abs(la) < 1e-12 and lb < 0):
                la, lb, lc = -la, -lb, -lc
            if not any(abs(la - x) < TOL and abs(lb - y) < TOL and abs(lc - z) < 1e-8
                       for x, y, z in lines):
                lines.append((la, lb, lc))
        pts2 = []
        if not lines:
            pts2.append((0.0137, 0.0211))
        for li, (la, lb, lc) in enumerate(lines):
            q0 = np.array([-lc * la, -lc * lb])
            t = np.array([-lb, la])
            nn = np.array([la, lb])
            ts = []
            for lj, (ma, mb, mc) in enumerate(lines):
                if lj == li:
                    continue
                den = ma * t[0] + mb * t[1]
                if abs(den) < 1e-9:
                    continue
                ts.append(-(ma * q0[0] + mb * q0[1] + mc) / den)
            ts = sorted(ts)
            uniq = []
            for x in ts:
                if not uniq or x - uniq[-1] > 1e-7:
                    uniq.append(x)
            if not uniq:
                mids = [0.0173]
            else:
                mids = ([uniq[0] - extra_box] + [(x + y) / 2 for x, y in zip(uniq, uniq[1:])]
                        + [uniq[-1] + extra_box])
            for tm in mids:
                q = q0 + tm * t
                for s in (eps, -eps):
                    pts2.append(tuple(q + s * nn))
        for (u, v) in pts2:
            p = p0 + u * a + v * b
            for s in (eps, -eps):
                W.append(p + s * n)
    W = np.array(W)
    f = W @ N.T + D
    keep = (np.abs(f) > CLEAR).all(1)
    return W[keep]


def axis_grid(coords_by_axis, pad=1.0):
    """Product grid of coordinate-interval midpoints (axis-aligned fast path)."""
    axes = []
    for ax in range(3):
        c = sorted(set(round(float(x), 9) for x in coords_by_axis[ax]))
        if not c:
            axes.append([0.0137 * (ax + 1)])
            continue
        pts = [c[0] - pad] + [(a + b) / 2 for a, b in zip(c, c[1:])] + [c[-1] + pad]
        axes.append(pts)
    return np.array(list(itertools.product(*axes)))


def sign_vectors(W, planes):
    P = cluster(planes)
    if not P:
        return {()}
    N = np.array([n for n, _ in P])
    D = np.array([d for _, d in P])
    return set(map(tuple, (W @ N.T + D > 0).astype(int)))


def expected_cells_generic(n):
    return 1 + n + n * (n - 1) // 2 + n * (n - 1) * (n - 2) // 6


# ---------------------------------------------------------------------------

def principal_lattice(degree, scale=1.37, shift=(0.211, -0.337, 0.173)):
    pts = [(i, j, k) for i in range(degree + 1) for j in range(degree + 1 - i)
           for k in range(degree + 1 - i - j)]
    return np.array(pts, float) * scale + np.array(shift)


def _monomials(P, degree):
    cols = []
    for i in range(degree + 1):
        for j in range(degree + 1 - i):
            for k in range(degree + 1 - i - j):
                cols.append(P[:, 0] ** i * P[:, 1] ** j * P[:, 2] ** k)
    return np.array(cols).T


def poly_coeffs(f, degree):
    """Coefficients (monomial basis) of the polynomial function f of the given
    degree, recovered from its values on the principal lattice (unisolvent)."""
    L = principal_lattice(degree)
    V = _monomials(L, degree)
    return np.linalg.solve(V, f(L))


def identify(f, g, degree, rtol=1e-8):
    """Return lambda if f == lambda*g as polynomials of degree <= `degree`
    (decided on the principal lattice, which determines such a polynomial),
    else None."""
    L = principal_lattice(degree)
    a, b = f(L), g(L)
    nb = b @ b
    if nb == 0:
        return None
    lam = (a @ b) / nb
    res = np.abs(a - lam * b).max()
    if res <= rtol * max(np.abs(a).max(), 1e-300) and lam != 0:
        return lam
    return None


def lattice_points(lo=-6.0, hi=6.0, n=13, jitter=0.0137):
    g = np.linspace(lo, hi, n) + jitter
    return np.array(list(itertools.product(g, g * 1.01, g * 0.99)))
