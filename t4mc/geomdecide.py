"""Finite decision procedures for "for all points of R^3".

* witnesses(planes): a point in every cell of a plane arrangement.
* identify(f, g, degree): polynomial identity f = lambda*g from the values on
  a unisolvent point set (principal lattice of the degree).
* probe_points(...): plane witnesses refined by a lattice for mixed decks.
"""
import itertools

import numpy as np

TOL = 1e-9
CLEAR = 1e-6


def cluster(planes):
    """planes: list of (n(3), d) meaning n.x + d = 0; normalise, merge coincident
    (planes equal after rounding to 1e-7; near-duplicates that straddle a rounding
    boundary stay separate, which only adds a sliver whose witnesses are dropped
    by the clearance filter)."""
    rows = []
    for n, d in planes:
        n = np.asarray(n, float)
        L = np.linalg.norm(n)
        if L < 1e-300:
            continue
        n, d = n / L, d / L
        k = next(i for i in range(3) if abs(n[i]) > 1e-12)
        if n[k] < 0:
            n, d = -n, -d
        rows.append((n[0], n[1], n[2], d))
    if not rows:
        return []
    A = np.array(rows)
    key = np.round(A, 7) + 0.0
    _, idx = np.unique(key, axis=0, return_index=True)
    return [(A[i, :3], A[i, 3]) for i in sorted(idx)]


def witnesses2d(lines, eps=1e-3, extra=10.0):
    """lines: list of (la, lb, lc) with la*u + lb*v + lc = 0, unit (la, lb).
    One point (at least) in every 2-cell of the arrangement."""
    uniq = []
    for la, lb, lc in lines:
        if la < -1e-12 or (abs(la) < 1e-12 and lb < 0):
            la, lb, lc = -la, -lb, -lc
        if not any(abs(la - x) < TOL and abs(lb - y) < TOL and abs(lc - z) < 1e-8 for x, y, z in uniq):
            uniq.append((la, lb, lc))
    if not uniq:
        return np.array([[0.0137, 0.0211]])
    pts = []
    for li, (la, lb, lc) in enumerate(uniq):
        q0 = np.array([-lc * la, -lc * lb])
        t = np.array([-lb, la])
        nn = np.array([la, lb])
        ts = []
        for lj, (ma, mb, mc) in enumerate(uniq):
            if lj == li:
                continue
            den = ma * t[0] + mb * t[1]
            if abs(den) < 1e-9:
                continue
            ts.append(-(ma * q0[0] + mb * q0[1] + mc) / den)
        ts = sorted(ts)
        u = []
        for x in ts:
            if not u or x - u[-1] > 1e-7:
                u.append(x)
        if not u:
            mids = [0.0173]
        else:
            mids = [u[0] - extra] + [(x + y) / 2 for x, y in zip(u, u[1:])] + [u[-1] + extra]
        for tm in mids:
            q = q0 + tm * t
            pts.append(q + eps * nn)
            pts.append(q - eps * nn)
    return np.array(pts)


def find_prism_axis(N):
    """A unit vector a such that every normal is parallel or perpendicular to a, or None."""
    cands = [n for n in N]
    for i in range(min(len(N), 6)):
        for j in range(i + 1, min(len(N), 6)):
            c = np.cross(N[i], N[j])
            L = np.linalg.norm(c)
            if L > 1e-6:
                cands.append(c / L)
    for a in cands:
        dots = np.abs(N @ a)
        if np.all((dots < 1e-9) | (dots > 1 - 1e-9)) and np.any(dots < 1e-9):
            return a
    return None


def witnesses(planes, eps=1e-3, extra_box=10.0, prism=True):
    """One point (at least) in every 3-cell of the arrangement of `planes`.

    General case, 3D -> 2D -> 1D recursion: for each plane, the lines it shares
    with the others; for each line the intervals cut by the other lines;
    midpoints are pushed off the line inside the plane (+-eps) and off the
    plane (+-eps).  When every normal is parallel or perpendicular to one axis
    (prism arrangements: lattices, axis-aligned decks) the arrangement is the
    product of a 2D line arrangement and a 1D point arrangement, and the
    witnesses are the product of their witnesses.
    Returned points keep a clearance > CLEAR from every plane.
    """
    P = cluster(planes)
    m = len(P)
    if m == 0:
        return np.zeros((1, 3)) + 0.1234
    N = np.array([n for n, _ in P])
    D = np.array([d for _, d in P])
    axis = find_prism_axis(N) if prism else None
    if axis is not None:
        e1 = np.cross(axis, [1, 0, 0]) if abs(axis[0]) < 0.9 else np.cross(axis, [0, 1, 0])
        e1 /= np.linalg.norm(e1)
        e2 = np.cross(axis, e1)
        axial = np.abs(N @ axis) > 0.5
        lines = [(n @ e1, n @ e2, d) for n, d in zip(N[~axial], D[~axial])]
        W2 = witnesses2d(lines, eps, extra_box)
        ts = sorted(-d / (n @ axis) for n, d in zip(N[axial], D[axial]))
        u = []
        for x in ts:
            if not u or x - u[-1] > 1e-7:
                u.append(x)
        if not u:
            mids = [0.0173]
        else:
            mids = [u[0] - extra_box] + [(x + y) / 2 for x, y in zip(u, u[1:])] + [u[-1] + extra_box]
        base = W2[:, :1] * e1 + W2[:, 1:2] * e2                        # (n2, 3)
        W = (base[None, :, :] + np.array(mids)[:, None, None] * axis[None, None, :]).reshape(-1, 3)
        f = W @ N.T + D
        return W[(np.abs(f) > CLEAR).all(1)]
    W = []
    for i in range(m):
        n, d = N[i], D[i]
        a = np.cross(n, [1, 0, 0]) if abs(n[0]) < 0.9 else np.cross(n, [0, 1, 0])
        a /= np.linalg.norm(a)
        b = np.cross(n, a)
        p0 = -d * n
        lines = []
        for j in range(m):
            if j == i:
                continue
            la, lb, lc = N[j] @ a, N[j] @ b, N[j] @ p0 + D[j]
            L = np.hypot(la, lb)
            if L < 1e-9:
                continue        # parallel plane
            lines.append((la / L, lb / L, lc / L))
        # the push off the plane is much smaller than the push off the line, so
        # that the point stays inside thin wedges between this plane and a plane
        # that crosses it at a shallow angle (down to ~1 degree)
        eps2 = eps * 0.02
        for (u, v) in witnesses2d(lines, eps, extra_box):
            p = p0 + u * a + v * b
            W.append(p + eps2 * n)
            W.append(p - eps2 * n)
    W = np.array(W)
    f = W @ N.T + D
    keep = (np.abs(f) > CLEAR).all(1)
    return W[keep]


def axis_grid(coords_by_axis, pad=1.0):
    """Product grid of coordinate-interval midpoints (axis-aligned fast path)."""
    axes = []
    for ax in range(3):
        c = sorted(set(round(float(x), 9) for x in coords_by_axis[ax]))
        if not c:
            axes.append([0.0137 * (ax + 1)])
            continue
        pts = [c[0] - pad] + [(a + b) / 2 for a, b in zip(c, c[1:])] + [c[-1] + pad]
        axes.append(pts)
    return np.array(list(itertools.product(*axes)))


def sign_vectors(W, planes):
    P = cluster(planes)
    if not P:
        return {()}
    N = np.array([n for n, _ in P])
    D = np.array([d for _, d in P])
    return set(map(tuple, (W @ N.T + D > 0).astype(int)))


def expected_cells_generic(n):
    return 1 + n + n * (n - 1) // 2 + n * (n - 1) * (n - 2) // 6


# ---------------------------------------------------------------------------

def principal_lattice(degree, scale=1.37, shift=(0.211, -0.337, 0.173)):
    pts = [(i, j, k) for i in range(degree + 1) for j in range(degree + 1 - i)
           for k in range(degree + 1 - i - j)]
    return np.array(pts, float) * scale + np.array(shift)


def _monomials(P, degree):
    cols = []
    for i in range(degree + 1):
        for j in range(degree + 1 - i):
            for k in range(degree + 1 - i - j):
                cols.append(P[:, 0] ** i * P[:, 1] ** j * P[:, 2] ** k)
    return np.array(cols).T


def poly_coeffs(f, degree):
    """Coefficients (monomial basis) of the polynomial function f of the given
    degree, recovered from its values on the principal lattice (unisolvent)."""
    L = principal_lattice(degree)
    V = _monomials(L, degree)
    return np.linalg.solve(V, f(L))


def identify(f, g, degree, rtol=1e-8):
    """Return lambda if f == lambda*g as polynomials of degree <= `degree`
    (decided on the principal lattice, which determines such a polynomial),
    else None."""
    L = principal_lattice(degree)
    a, b = f(L), g(L)
    nb = b @ b
    if nb == 0:
        return None
    lam = (a @ b) / nb
    res = np.abs(a - lam * b).max()
    if res <= rtol * max(np.abs(a).max(), 1e-300) and lam != 0:
        return lam
    return None


def lattice_points(lo=-6.0, hi=6.0, n=13, jitter=0.0137):
    g = np.linspace(lo, hi, n) + jitter
    return np.array(list(itertools.product(g, g * 1.01, g * 0.99)))
