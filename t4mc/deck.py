"""Abstract decks: expression trees, rendering to MCNP text, reference
evaluation.  Nothing here imports the converter.

Expression trees
    int                  signed surface number
    ('f', s, k)          facet k of signed macrobody surface s   ->  s.k
    ('*', a, b)          intersection (blank)
    (':', a, b)          union
    ('#', e)             complement of a sub-expression  -> #( e )
    ('^', n)             complement of cell n            -> #n
"""
import numpy as np


def fmt(x):
    """Render a number the plain way (default spelling)."""
    if isinstance(x, str):
        return x
    if isinstance(x, (int, np.integer)):
        return str(int(x))
    r = repr(float(x))
    if r.endswith('.0'):
        r = r[:-2]
    return r


def render_expr(t, prec=0):
    """Minimal-parentheses rendering (':' prec 1, blank prec 2)."""
    if isinstance(t, (int, np.integer)):
        return str(int(t))
    op = t[0]
    if op == 'f':
        return '%d.%d' % (t[1], t[2])
    if op == '#':
        return '#(' + render_expr(t[1], 0) + ')'
    if op == '^':
        return '#%d' % t[1]
    if op == '*':
        s = render_expr(t[1], 2) + ' ' + render_expr(t[2], 3)
        return '(' + s + ')' if prec > 2 else s
    if op == ':':
        s = render_expr(t[1], 1) + ':' + render_expr(t[2], 2)
        return '(' + s + ')' if prec > 1 else s
    raise ValueError(t)


def render_expr_paren(t, top=True):
    """Fully parenthesised rendering."""
    if isinstance(t, (int, np.integer)):
        return str(int(t))
    op = t[0]
    if op in 'f#^':
        return render_expr(t)
    a, b = render_expr_paren(t[1], False), render_expr_paren(t[2], False)
    s = a + (' ' if op == '*' else ':') + b
    return s if top else '(' + s + ')'


def holds(t, sense, cells=None):
    """Reference truth value(s) of expression t.

    sense(lit) -> bool array for an int literal or ('f', s, k) literal with
    positive s (the positive side); cells: dict n -> expression (for '^')."""
    if isinstance(t, (int, np.integer)):
        v = sense(abs(int(t)))
        return v if t > 0 else ~v
    op = t[0]
    if op == 'f':
        v = sense(('f', abs(t[1]), t[2]))
        return v if t[1] > 0 else ~v
    if op == '#':
        return ~holds(t[1], sense, cells)
    if op == '^':
        return ~holds(cells[t[1]], sense, cells)
    a, b = holds(t[1], sense, cells), holds(t[2], sense, cells)
    return (a & b) if op == '*' else (a | b)


def demorgan(t):
    """Explicit complement of t without '#' (surfaces negated)."""
    if isinstance(t, (int, np.integer)):
        return -int(t)
    op = t[0]
    if op == 'f':
        return ('f', -t[1], t[2])
    if op == '#':
        return strip_compl(t[1])
    if op == '^':
        raise ValueError('demorgan of cell complement')
    return (':' if op == '*' else '*', demorgan(t[1]), demorgan(t[2]))


def strip_compl(t):
    if isinstance(t, (int, np.integer)) or t[0] == 'f':
        return t
    if t[0] == '#':
        return demorgan(strip_compl(t[1]))
    if t[0] == '^':
        return t
    return (t[0], strip_compl(t[1]), strip_compl(t[2]))


def leaves(t):
    if isinstance(t, (int, np.integer)):
        yield int(t)
    elif t[0] == 'f':
        yield t
    elif t[0] == '#':
        yield from leaves(t[1])
    elif t[0] == '^':
        return
    else:
        yield from leaves(t[1])
        yield from leaves(t[2])


def nleaves(t):
    if isinstance(t, (int, np.integer)) or t[0] in 'f^':
        return 1
    if t[0] == '#':
        return nleaves(t[1])
    return nleaves(t[1]) + nleaves(t[2])


# shapes of binary trees with k leaves: nested tuples of None
def shapes(k):
    if k == 1:
        return [None]
    out = []
    for i in range(1, k):
        for a in shapes(i):
            for b in shapes(k - i):
                out.append((a, b))
    return out


def choose_tree(ch, label, k_options, lits, compl=False, free=False):
    """Build an expression tree through the chooser: number of leaves, shape,
    operators, leaf literals and (optionally) '#(' wrappers at inner nodes."""
    k = ch.choose(label + '.k', k_options, free=free)
    shp = ch.choose(label + '.shape', shapes(k), free=free)
    counter = [0]

    def fill(s):
        counter[0] += 1
        me = counter[0]
        if s is None:
            return ch.choose('%s.leaf%d' % (label, me), lits, free=free)
        op = ch.choose('%s.op%d' % (label, me), ['*', ':'], free=free)
        node = (op, fill(s[0]), fill(s[1]))
        if compl and ch.choose('%s.compl%d' % (label, me), [False, True], free=free):
            node = ('#', node)
        return node
    return fill(shp)


class Deck:
    """A rendered deck: title, cell cards, surface cards, data cards."""

    def __init__(self, title='t4mc generated deck'):
        self.title = title
        self.cells = []
        self.surfs = []
        self.data = []
        self.options = []
        self.meta = {}

    @property
    def deck_text(self):
        parts = [self.title] + self.cells + [''] + self.surfs + ['']
        if self.data:
            parts += self.data + ['']
        return '\n'.join(parts) + '\n'
