"""C02 - elementary surfaces keep their locus and their sense."""
import numpy as np

from .. import env, t4read, oracle, geomdecide, refsem
from ..deck import Deck, fmt
from ..runner import Scn, verdict, sha, Vacuous

ID = 'C02'
DECORATE = True
LEVEL = 'model_checking'
RULE = ('E1 enumeration of surface cards: every mnemonic x parameter alphabet (negative, non-integer '
        'and zero values where admissible; inadmissible vectors are not generated), one-surface deck '
        'with probe cells -s and +s; each emitted SURF is identified with the MCNP equation as a '
        'polynomial on a unisolvent point set (all points), the probe volumes are compared on a '
        'lattice that realises every sign vector; non-trivial = both senses realised by probe points; '
        'distinct = distinct card text; SQ cards with G = 0 (cones, paraboloids)')
ASSUMPTIONS = [
    'MCNP surface equations and sense rules of DESIGN.md section 5 (manual)',
    'TRIPOLI-4 surface conventions of DESIGN.md section 5',
    'excluded: SQ cards whose centre has positive sense (converter negates by design; MCNP behaviour '
    'cannot be established offline); spindle tori',
]

C4 = [1.0, -2.0, 0.0, 0.5]
R3 = [2.0, 0.5, 3.25]
T2 = [0.5, 2.0, 1.0]
SHEET = [None, 1, -1]
LAT = geomdecide.lattice_points(-6.0, 6.0, 13)


class St(Deck):
    pass


SCALES = [1.0, 100.0, 0.01]
# indices of the parameters that are lengths (scaled when the whole card is scaled)
def length_slots(mn, n):
    if mn in ('px', 'py', 'pz', 'so', 'cx', 'cy', 'cz'):
        return [0]
    if mn == 'p' and n == 4:
        return [3]
    if mn in ('s', 'tx', 'ty', 'tz'):
        return list(range(n))
    if mn in ('sx', 'sy', 'sz', 'c/x', 'c/y', 'c/z'):
        return list(range(n))
    if mn in ('k/x', 'k/y', 'k/z'):
        return [0, 1, 2]
    if mn in ('kx', 'ky', 'kz'):
        return [0]
    if mn in ('x', 'y', 'z'):
        return list(range(n))
    return None


def card_state(mn, params, note='', scale=1.0):
    st = St('c02 %s' % mn)
    params = list(params)
    if scale != 1.0:
        slots = length_slots(mn, len(params))
        if slots is None:
            scale = 1.0
        else:
            params = [p * scale if i in slots else p for i, p in enumerate(params)]
    st.scale = scale
    st.mn, st.params = mn, list(params)
    st.cells = ['1 0 -1 imp:n=1', '2 0 1 imp:n=1']
    st.surfs = ['1 %s %s' % (mn, ' '.join(fmt(x) for x in params))]
    return st


def b_plane(ch):
    mn = ch.choose('mn', ['px', 'py', 'pz', 'p'], free=True)
    sc = ch.choose('scale', SCALES, free=True)
    if mn != 'p':
        return card_state(mn, [ch.choose('D', [1.5, -2.0, 0.0, 0.5], free=True)], scale=sc)
    n = [ch.choose('n%d' % i, [1.0, 0.0, -1.0, 0.5, 1e-5], free=True) for i in range(3)]
    if not any(n):
        ch.reject()
    h = ch.choose('equation-scale', [1.0, 1.0e-9, 1.0e7])
    if h != 1.0 and sc != 1.0:
        ch.reject()
    return card_state('p', [h * v for v in n + [ch.choose('D', [1.5, -2.0, 0.0, 0.5], free=True)]], scale=sc)


P3_CASES = [
    [1, 0, 0, 0, 1, 0, 0, 0, 1], [1, 0, 0, 0, 1, 0, 0, 0, -1], [-1, 0, 0, 0, -1, 0, 0, 0, -3],
    [0, 1, 0, 1, 0, 0, 0, 0, 1],                       # reversed orientation
    [1, 0, 0, 0, 1, 0, 0, 0, 0], [0, 0, 0, 1, 0, 0, 0, 1, 0], [0, 0, 0, 0, 1, 0, 1, 0, 0],   # D=0, C!=0
    [0, 0, 0, 1, 0, 0, 0, 0, 1], [0, 0, 0, 0, 0, 1, 1, 0, 0],     # D=C=0: plane y=0
    [0, 0, 0, 0, 1, 0, 0, 0, 1], [0, 0, 0, 0, 0, 1, 0, 1, 0],     # D=C=B=0: plane x=0
    [0, 0, 0, 1, 1, 0, 0, 0, 1], [0, 0, 0, 0, 0, 1, 1, 1, 0],     # D=C=0 oblique
    [1, 2, 3, -1, 0.5, 2, 0, -2, 1], [2, 0, 1, 2, 3, -1, 2, -1, 4],   # generic; x=2
    [0.5, 1, -2, 3, 1, 0, -1, 1, 4],                               # y=1
    # planes that miss the origin by less than a micrometre: D != 0, so the origin has negative sense
    [-2e-7, 0, 0, -2e-7, 1, 0, -2e-7, 0, 1], [2e-7, 0, 0, 1 + 2e-7, 0, 1, 2e-7, 1, 0],
    [0, -5e-7, 0, 1, -5e-7, 0, 0, -5e-7, 1], [0, 0, -3e-7, 1, 0, -3e-7, 0, 1, -3e-7],
    [3e-9, 0, 0, 3e-9, 1, 0, 3e-9, 0, 1],
]


def b_p3(ch):
    pts = ch.choose('pts', P3_CASES, free=True)
    perm = ch.choose('order', [(0, 1, 2), (1, 0, 2), (2, 1, 0), (1, 2, 0)], free=True)
    q = []
    for i in perm:
        q += pts[3 * i:3 * i + 3]
    return card_state('p', q)


def b_sphere(ch):
    mn = ch.choose('mn', ['so', 's', 'sx', 'sy', 'sz'], free=True)
    sc = ch.choose('scale', SCALES, free=True)
    if mn == 'so':
        return card_state(mn, [ch.choose('r', R3, free=True)], scale=sc)
    if mn == 's':
        c = [ch.choose('c%d' % i, C4, free=True) for i in range(3)]
        return card_state(mn, c + [ch.choose('r', R3, free=True)], scale=sc)
    return card_state(mn, [ch.choose('c', C4, free=True), ch.choose('r', R3, free=True)], scale=sc)


def b_cyl(ch):
    mn = ch.choose('mn', ['c/x', 'c/y', 'c/z', 'cx', 'cy', 'cz'], free=True)
    sc = ch.choose('scale', SCALES, free=True)
    if '/' in mn:
        c = [ch.choose('c%d' % i, C4, free=True) for i in range(2)]
        return card_state(mn, c + [ch.choose('r', R3, free=True)], scale=sc)
    return card_state(mn, [ch.choose('r', R3, free=True)], scale=sc)


def b_cone(ch):
    mn = ch.choose('mn', ['k/x', 'k/y', 'k/z', 'kx', 'ky', 'kz'], free=True)
    if '/' in mn:
        c = [ch.choose('c%d' % i, C4, free=True) for i in range(3)]
    else:
        c = [ch.choose('c', C4, free=True)]
    p = c + [ch.choose('t2', T2, free=True)]
    sh = ch.choose('sheet', SHEET, free=True)
    if sh is not None:
        p.append(sh)
    return card_state(mn, p, scale=ch.choose('scale', SCALES, free=True))


def b_sq(ch):
    abc = [ch.choose(n, [1.0, 2.0, -0.5, 0.0], free=True) for n in 'ABC']
    if sum(1 for v in abc if v) < 2:
        ch.reject()
    deff = [ch.choose(n, [0.0, 0.3, -0.2], free=False) for n in 'DEF']
    G = ch.choose('G', [-4.0, -1.0, 0.0, 1.0], free=True)     # 0: cones, paraboloids in SQ form
    c = ch.choose('centre', [(0.0, 0.0, 0.0), (1.0, -1.0, 0.5), (-2.0, 0.5, 0.0)], free=True)
    # the equation is homogeneous: the same locus with all seven coefficients scaled
    h = ch.choose('equation-scale', [1.0, 1.0e-12, 1.0e9])
    st = card_state('sq', [h * v for v in abc + deff + [G]] + list(c))
    # value of the MCNP expression at the centre: positive-centre cards are excluded (DESIGN 7)
    if G > 0:
        ch.reject('positive centre')
    return st


def b_gq(ch):
    abc = [ch.choose(n, [1.0, 2.0, -0.5, 0.0], free=True) for n in 'ABC']
    if not any(abc):
        ch.reject()
    cross = [ch.choose(n, [0.0, 0.3, -0.2]) for n in 'DEF']
    lin = [ch.choose(n, [0.0, 1.0, -0.5]) for n in 'GHJ']
    K = ch.choose('K', [-6.0, 1.0, 0.0], free=True)
    h = ch.choose('equation-scale', [1.0, 1.0e-12, 1.0e9])
    return card_state('gq', [h * v for v in abc + cross + lin + [K]])


def b_torus(ch):
    mn = ch.choose('mn', ['tx', 'ty', 'tz'], free=True)
    c = [ch.choose('c%d' % i, [1.0, -2.0, 0.0], free=True) for i in range(3)]
    A = ch.choose('A', [3.0, 4.0], free=True)
    B = ch.choose('B', [1.0, 0.5, 1.5], free=True)
    C = ch.choose('C', [1.0, 0.5, 2.0], free=True)
    return card_state(mn, c + [A, B, C], scale=ch.choose('scale', [1.0, 100.0], free=True))


XYZ_CASES = [
    [1.5, 2.0], [-2.0, 1.0], [0.0, 3.0],                                  # one pair: plane
    [1.0, 1.0, 1.0, 2.0], [-2.0, 0.5, -2.0, 3.0],                         # same coordinate: plane
    [1.0, 2.0, 3.0, 2.0], [-1.0, 0.5, 2.0, 0.5],                          # same radius: cylinder
    [1.0, 1.0, 3.0, 2.0], [3.0, 2.0, 1.0, 1.0],                           # cone opening towards +
    [1.0, 2.0, 3.0, 1.0], [3.0, 1.0, 1.0, 2.0],                           # cone opening towards -
    [-1.0, 0.5, -3.0, 2.0], [-4.0, 3.0, 0.0, 1.0], [0.0, 1.0, 2.0, 3.0],
    # one of the two points is the apex itself (r = 0)
    [0.0, 0.0, 5.0, 5.0], [3.0, 2.0, 1.0, 0.0], [0.0, 0.0, -4.0, 2.0], [-2.0, 1.5, 1.0, 0.0],
]


def b_xyz(ch):
    mn = ch.choose('mn', ['x', 'y', 'z'], free=True)
    return card_state(mn, ch.choose('pairs', XYZ_CASES, free=True), scale=ch.choose('scale', SCALES, free=True))


def scenarios(tier):
    full = None
    out = [
        Scn('planes', b_plane, full, full, 'px py pz and all p(4) normals'),
        Scn('p-3points', b_p3, full, full, 'three-point planes incl. D=0, D=C=0, D=C=B=0 and point orders'),
        Scn('spheres', b_sphere, full, full, 'so s sx sy sz'),
        Scn('cylinders', b_cyl, full, full, 'c/x c/y c/z cx cy cz'),
        Scn('cones', b_cone, full, full, 'k/x.. kx.. without, with +1 and with -1 sheet'),
        Scn('sq', b_sq, 2, full, 'special quadrics (negative-centre cards)'),
        Scn('gq', b_gq, 2, 4, 'general quadrics'),
        Scn('tori', b_torus, full, full, 'tx ty tz circular and elliptic ring tori'),
        Scn('xyz', b_xyz, full, full, 'point-defined x y z surfaces'),
    ]
    return out


def reference(st):
    return refsem.mcnp_surface(st.mn, st.params)


def check_state(scn, st, flip=False):
    ref = reference(st)
    r = env.run(st.deck_text, st.options)
    if not r.ok:
        return verdict(False, st, cls={'kind': 'exception', 'exc': r.exc_type, 'mn': st.mn},
                       msg='conversion of a valid card failed: %s\n%s' % (r.brief(), st.surfs[0]),
                       out='err:' + r.exc_type)
    t4 = t4read.parse(r.t4)
    cls, msg = oracle.structural_cls(t4, st.options)
    if cls:
        return verdict(False, st, cls=cls, msg=msg, out=sha(r.body))
    matches, unmatched = oracle.identify_surfaces(t4, ref.comps)
    if unmatched:
        return verdict(False, st, cls={'kind': 'locus', 'mn': st.mn},
                       msg='SURF %s is not the zero set of the MCNP equation of %r\n%s'
                       % (unmatched, st.surfs[0], r.body[:600]), out=sha(r.body))
    P = LAT * getattr(st, 'scale', 1.0)
    clear = np.ones(len(P), bool)
    for f, d in ref.comps:
        v = f(P)
        clear &= np.abs(v) > 1e-7 * max(1.0, np.abs(v).max())
    P = P[clear]
    neg, pos = ref.neg(P), ref.pos(P)
    if flip:
        neg, pos = pos, neg
    bad = oracle.compare_cells(t4, P, {1: neg, 2: pos})
    nontriv = bool(neg.any() and pos.any())
    stats = {'probe_points': len(P), 'surfs_identified': len(matches), 'mnemonics': {st.mn}}
    if bad:
        return verdict(False, st, cls={'kind': 'sense', 'mn': st.mn},
                       msg='%s\n%s\n%s' % (st.surfs[0], '\n'.join(bad), r.body[:600]),
                       out=sha(r.body), stats=stats)
    return verdict(True, st, out=sha(r.body), nontrivial=nontriv, stats=stats)


def canaries():
    out = []
    st = card_state('k/y', [1.0, -2.0, 0.5, 2.0, -1])
    out.append(('c02-baseline', check_state('x', st)['ok']))
    out.append(('c02-flipped-sense-detected', not check_state('x', st, flip=True)['ok']))
    st2 = card_state('c/y', [1.0, -2.0, 2.0])
    ref_wrong = refsem.mcnp_surface('c/x', [1.0, -2.0, 2.0])
    r = env.run(st2.deck_text)
    t4 = t4read.parse(r.t4)
    _, unmatched = oracle.identify_surfaces(t4, ref_wrong.comps)
    out.append(('c02-wrong-axis-locus-detected', bool(unmatched)))
    return out


def finish(agg, tier):
    mns = agg['stats'].get('mnemonics', set())
    need = {'p', 'px', 'py', 'pz', 'so', 's', 'sx', 'sy', 'sz', 'c/x', 'c/y', 'c/z', 'cx', 'cy', 'cz',
            'k/x', 'k/y', 'k/z', 'kx', 'ky', 'kz', 'sq', 'gq', 'tx', 'ty', 'tz', 'x', 'z'}
    if not need <= set(mns):
        raise Vacuous('mnemonics not exercised: %s' % sorted(need - set(mns)))
    return {'mnemonics_exercised': sorted(mns)}
