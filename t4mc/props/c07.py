"""C07 - hexagonal lattices follow MCNP's hexagonal index convention."""
import math

import numpy as np

from .. import env, t4read, oracle, hier, refsem, geomdecide
from ..hier import HDeck, HCell, Tr
from ..runner import Scn, verdict, sha, Vacuous
from . import c06

ID = 'C07'
DECORATE = True
LEVEL = 'model_checking'
RULE = ('E1 enumeration of LAT=2 decks: regular hexagons (2 pitches x 3 rotations) and irregular ones '
        '(stretched, sheared; opposite sides parallel and equal), prism axis z / x / oblique, six or eight '
        'planes or an RHP/HEX macrobody, every admissible listing (start side, both chiralities, the last two side planes in both '
        'orders, each plane written with either normal orientation), ranges -1:1 x -1:1 (x 0:1), several '
        'asymmetric fill arrays; oracle: hexagon by half-plane clipping (independent of the converter), '
        'a1 = mid(side 1) - mid(side 2), a2 = mid(side 3) - mid(side 4), a3 across the seventh plane, '
        'lattice semantics as C06, complete plane-arrangement witnesses; non-trivial = at least three '
        'different owners; distinct = deck text + options; also: third plane adjacent to the first or two sides further on, grouping of the listing, RHP/HEX-bounded cells, a single storey other than 0 (third range 1:1), end planes oblique to the prism axis')
ASSUMPTIONS = [
    'MCNP hexagonal lattice convention: [1,0,0] beyond the 1st listed plane, [0,1,0] beyond the 3rd, '
    '[-1,1,0] beyond the 5th or 6th (the last two side planes may be listed in either order), [0,0,1] beyond the 7th',
    'the 3rd listed plane is adjacent to the 1st (the usual listing) or two sides further on; in both cases '
    'a2 is the translation across it, as the property states',
    'a LAT=2 cell bounded by an RHP/HEX macrobody takes the facets in their numbering as the listed planes '
    '(a1 = 2r, a2 = 2s, a3 = h); for the 9-entry form s is r turned by +60 degrees about h',
]


def clip_polygon(planes2d):
    """planes2d: list of (n(2), d, s): cell on the side s*(n.x - d) > 0; returns polygon vertices"""
    poly = [np.array(p, float) for p in [(-1e3, -1e3), (1e3, -1e3), (1e3, 1e3), (-1e3, 1e3)]]
    for n, d, s in planes2d:
        n = np.asarray(n, float)
        out = []
        for i in range(len(poly)):
            a, b = poly[i], poly[(i + 1) % len(poly)]
            fa, fb = s * (n @ a - d), s * (n @ b - d)
            if fa >= 0:
                out.append(a)
            if fa * fb < 0:
                out.append(a + (b - a) * fa / (fa - fb))
        poly = out
    return poly


def hex_reference(planes3d, axis):
    """planes3d: listed side planes [(n(3), d, s)] (6 entries, cell on side s of n.x - d);
    returns a1, a2 (3-vectors) by clipping in the plane perpendicular to `axis`."""
    axis = np.asarray(axis, float) / np.linalg.norm(axis)
    e1 = np.cross(axis, [1, 0, 0]) if abs(axis[0]) < 0.9 else np.cross(axis, [0, 1, 0])
    e1 /= np.linalg.norm(e1)
    e2 = np.cross(axis, e1)
    p2 = [((n @ e1, n @ e2), d, s) for n, d, s in planes3d]
    poly = clip_polygon(p2)
    mids = []
    for (n2, d, s) in p2:
        n2 = np.asarray(n2, float)
        on = [p for p in poly if abs(n2 @ p - d) < 1e-7]
        if len(on) != 2:
            raise RuntimeError('hexagon side with %d vertices' % len(on))
        mids.append((on[0] + on[1]) / 2)
    a1 = mids[0] - mids[1]
    a2 = mids[2] - mids[3]
    to3 = lambda v: v[0] * e1 + v[1] * e2
    return to3(a1), to3(a2)


HEXES = {
    # name: (linear map applied to the unit-apothem regular hexagon, rotation angle)
    'reg1': (np.eye(2), 0.0), 'reg1-30': (np.eye(2), 30.0), 'reg1-17': (np.eye(2), 17.0),
    'reg0.8': (0.8 * np.eye(2), 0.0),
    'stretch': (np.array([[1.5, 0.0], [0.0, 0.8]]), 10.0),
    'shear': (np.array([[1.0, 0.4], [0.0, 1.1]]), 0.0),
}
AXES = {'z': np.eye(3), 'x': refsem.rotation([0, 1, 0], 90.0),
        'oblique': refsem.rotation([1, 2, 0.5], 50.0)}
PATTERNS = [
    [2, 3, 0, 1, 2, 3, 3, 1, 2],
    [3, 3, 2, 0, 1, 2, 2, 3, 1],
    [1, 2, 3, 3, 2, 0, 2, 2, 3],
]


FAR = {'near': None, 'far-1e7': (4.0e7, -3.0e6, 2.0e7)}


def build(ch, allow_far=False):
    d = HDeck('c07 hex lattice')
    A, phi = HEXES[ch.choose('hexagon', list(HEXES))]
    Q = AXES[ch.choose('axis', list(AXES))]
    if allow_far:
        # the same deck written millions of centimetres from the origin (all its motions are translations)
        d.shift = FAR[ch.choose('placement', list(FAR))]
    nplanes = ch.choose('planes', [6, 8])
    start = ch.choose('start-side', [0, 1, 2, 3, 4, 5])
    chir = ch.choose('chirality', [1, -1])
    swap56 = ch.choose('swap-last-two', [False, True])
    centre2 = np.array([0.3, -0.2])
    # vertices of the hexagon, counter-clockwise
    R = 2.0 / math.sqrt(3.0)
    V = []
    for k in range(6):
        a = math.radians(phi + 30.0 + 60.0 * k)
        V.append(centre2 + A @ np.array([R * math.cos(a), R * math.sin(a)]))
    sides = []   # side k between V[k] and V[k+1]: outward normal and offset
    for k in range(6):
        p, q = V[k], V[(k + 1) % 6]
        t = q - p
        n = np.array([t[1], -t[0]]); n /= np.linalg.norm(n)
        sides.append((n, n @ p))
    # the third-listed plane is usually a neighbour of the first (a1, a2 at 60 degrees); listed two sides further
    # on, a1 and a2 are at 120 degrees and generate the same lattice of translations
    step = ch.choose('third-plane', [1, 2])
    other = 3 - step
    order = [start, (start + 3) % 6, (start + step * chir) % 6, (start + step * chir + 3) % 6,
             (start + other * chir) % 6, (start + other * chir + 3) % 6]
    if swap56:
        order[4], order[5] = order[5], order[4]
    lits, listed = [], []
    snum = 60
    # some side planes may carry a TR number whose displacement is along the prism axis: their locus is
    # unchanged, but the point that represents them internally moves
    tr_planes = ch.choose('tr-on-side-planes', [(), (0, 5), (2,), (0, 1, 2, 3, 4, 5)])
    for pos, k in enumerate(order):
        n2, dd = sides[k]
        n3 = Q @ np.array([n2[0], n2[1], 0.0])
        inward = ch.choose('inward-normal%d' % pos, [False, True])
        if inward:
            d.add_surface(snum, 'p', list(-n3) + [-dd]); lits.append(snum)
        else:
            d.add_surface(snum, 'p', list(n3) + [dd]); lits.append(-snum)
        if pos in tr_planes:
            d.surfcards[snum] = '5 ' + d.surfcards[snum]
            d.trcards[5] = (refsem.Motion(3.0 * (Q @ np.array([0.0, 0.0, 1.0]))), False)
        listed.append((n3, dd, -1))
        snum += 1
    axis = Q @ np.array([0.0, 0.0, 1.0])
    base = list(hex_reference(listed, axis))
    # a second (replica) lattice doubles the arrangement: those decks use a 2 x 2 range
    replica = ch.choose('replica', ['none', 'like-rot', 'like-transl', 'explicit-rot'])
    rng = [(-1, 1), (-1, 1)] if replica == 'none' else [(0, 1), (-1, 0)]
    if nplanes == 8:
        top_first = ch.choose('top-first', [True, False])
        zlo, zhi = -1.0, 1.5
        # the two end planes are parallel to each other but need not be perpendicular to the prism axis: the
        # elements tile space only if a1 and a2 lie in the end planes (a3 stays along the axis)
        mnorm = axis
        if ch.choose('end-planes', ['perpendicular', 'oblique']) == 'oblique':
            mnorm = axis + 0.2 * (Q @ np.array([1.0, 0.0, 0.0])) - 0.1 * (Q @ np.array([0.0, 1.0, 0.0]))
            base = [b - axis * float(mnorm @ b) for b in base]       # mnorm @ axis = 1
            # the arrangement is no longer one of prisms (no fast path for the witnesses): 2 x 2 elements per storey
            rng = [(0, 1), (-1, 0)]
        d.add_surface(snum, 'p', list(mnorm) + [zhi]); d.add_surface(snum + 1, 'p', list(mnorm) + [zlo])
        if top_first:
            lits += [-snum, snum + 1]; base.append(axis * (zhi - zlo))
        else:
            lits += [snum + 1, -snum]; base.append(-axis * (zhi - zlo))
        rng.append(ch.choose('range3', [(0, 1), (0, 0), (-1, 0), (1, 1)]))     # (1, 1): one storey, not the one of the cell itself
    else:
        if ch.choose('trailing-trivial', [False, True]):
            rng.append((0, 0))
    # redundant parentheses (or a complemented union) around pairs of the listing do not change its order
    expr = hier.group_pairs(lits, ch.choose('grouping', ['flat', 'pairs', 'complement']))
    lat = HCell(20, expr, mat=4, rho='-1.5', u=1, lat=2)
    lat.base = base[:2] + (base[2:] if nplanes == 8 else [])
    lat.ranges = rng
    nel = int(np.prod([hi - lo + 1 for lo, hi in rng]))
    pat = ch.choose('pattern', PATTERNS)
    lat.array = [(pat * 3)[i + (i // 9)] for i in range(nel)]
    lat.single = False
    # container: a large box aligned with the lattice frame (keeps the arrangement a prism arrangement)
    for k, (ax, val) in enumerate([(0, -9.0), (0, 9.0), (1, -9.0), (1, 9.0), (2, -9.0), (2, 9.0)]):
        e = np.zeros(3); e[ax] = 1.0
        d.add_surface(k + 1, 'p', list(Q @ e) + [val])
    d.add_cell(HCell(10, ('*', ('*', ('*', 1, -2), ('*', 3, -4)), ('*', 5, -6)), fill=1))
    # optionally a second lattice cell bounded by the same surfaces: a LIKE n BUT replica moved by a TRCL
    # (translation, or rotation about the prism axis + translation), in its own universe and container
    if replica != 'none':
        shift = Q @ np.array([30.0, 0.0, 0.0])
        if replica == 'like-transl':
            m2 = refsem.Motion(shift)
        else:
            Rax = refsem.rotation(axis, 30.0)
            m2 = refsem.Motion(shift, Rax.T)
        lat2 = HCell(21, expr, mat=4, rho='-1.5', u=6, lat=2)
        lat2.base, lat2.ranges, lat2.array, lat2.single = lat.base, lat.ranges, list(lat.array), False
        lat2.trcl = Tr(m2, 'star' if replica != 'like-transl' else 'inline3')
        for k, (ax, val) in enumerate([(0, 21.0), (0, 39.0), (1, -9.0), (1, 9.0), (2, -9.0), (2, 9.0)]):
            e = np.zeros(3); e[ax] = 1.0
            d.add_surface(k + 11, 'p', list(Q @ e) + [val])
        d.add_cell(HCell(11, ('*', ('*', ('*', 11, -12), ('*', 13, -14)), ('*', 15, -16)), fill=6))
        d.add_cell(HCell(19, ('*', ('^', 10), ('^', 11)), imp=1))
        d.add_cell(lat)
        d.add_cell(lat2)
        d.replica_like = replica.startswith('like')
    else:
        d.add_cell(HCell(19, ('^', 10), imp=1))
        d.add_cell(lat)
        d.replica_like = False
    # fillers: asymmetric splits through the hexagon (planes in the lattice frame)
    c3 = Q @ np.array([centre2[0], centre2[1], 0.0])
    na = Q @ np.array([1.0, 0.2, 0.0]); nb = Q @ np.array([-0.3, 1.0, 0.0])
    d.add_surface(41, 'p', list(na) + [float(na @ c3) + 0.15])
    d.add_surface(42, 'p', list(nb) + [float(nb @ c3) - 0.1])
    # the universes also vary along the prism axis (a displacement of a universe along the axis must be visible)
    d.add_surface(43, 'p', list(axis) + [float(axis @ c3) + 0.4])
    d.add_surface(44, 'p', list(axis) + [float(axis @ c3) - 0.3])
    d.add_cell(HCell(31, -41, mat=1, rho='-2.7', u=2))
    d.add_cell(HCell(32, ('*', 41, -43), mat=2, rho='-7.8', u=2))
    d.add_cell(HCell(35, ('*', 41, 43), mat=3, rho='-1.0', u=2))
    d.add_cell(HCell(33, -42, mat=3, rho='-1.0', u=3))
    d.add_cell(HCell(34, ('*', 42, 44), mat=1, rho='-2.7', u=3))
    d.add_cell(HCell(36, ('*', 42, -44), mat=2, rho='-7.8', u=3))
    d.mats = dict(c06.MATS)
    d.finish()
    if d.replica_like:
        # write the replica as LIKE 20 BUT ... (same surfaces, same fill array)
        txt, st_ = d.cell(21).trcl.paren()
        kw = ('*trcl=(%s)' if st_ else 'trcl=(%s)') % txt
        d.cells = [('21 like 20 but %s u=6' % kw) if c.startswith('21 ') else c for c in d.cells]
    return d


def build_macro(ch):
    """LAT=2 cell bounded by an RHP / HEX macrobody: the facets play the role of the listed planes
    (1, 2 = +-r; 3, 4 = +-s; 5, 6 = +-t; 7 = top, 8 = base), so a1 = 2r, a2 = 2s, a3 = h."""
    from . import c03
    d = HDeck('c07 hex lattice bounded by a macrobody')
    mnem = ch.choose('mnemonic', ['rhp', 'hex'])
    Q = AXES[ch.choose('axis', list(AXES))]
    phi = math.radians(ch.choose('phi', [0.0, 30.0, 17.0]))
    ap = ch.choose('apothem', [1.0, 0.8])
    form = ch.choose('form', ['9', '15', '15cw', '15irregular'])
    centre2 = np.array([0.3, -0.2])
    axis = Q @ np.array([0.0, 0.0, 1.0])
    zlo, zhi = -1.0, 1.5
    v = Q @ np.array([centre2[0], centre2[1], zlo])
    h = axis * (zhi - zlo)
    r = Q @ (ap * np.array([math.cos(phi), math.sin(phi), 0.0]))
    if form == '9':
        body = c03.body_rhp(v, h, r)
        sv = refsem.rotation(axis, 60.0) @ r
    else:
        sgn = -1.0 if form == '15cw' else 1.0
        sv = refsem.rotation(axis, sgn * 60.0) @ r
        tv = refsem.rotation(axis, sgn * 120.0) @ r
        if form == '15irregular':
            # opposite sides stay parallel and equal: t = s - r for the stretched hexagon
            sv = sv + 0.3 * r
            tv = sv - r
        body = c03.body_rhp(v, h, r, sv, tv)
    d.surfcards[60] = mnem + body.card[3:]
    d.refsurfs[60] = refsem.RefSurf(body.facets, body.inside)
    base = [2.0 * r, 2.0 * sv, h]
    rng = [(-1, 1), (-1, 1), ch.choose('range3', [(0, 0), (0, 1), (-1, 0), (1, 1)])]
    lat = HCell(20, -60, mat=4, rho='-1.5', u=1, lat=2)
    lat.base = base
    lat.ranges = rng
    nel = int(np.prod([hi - lo + 1 for lo, hi in rng]))
    pat = ch.choose('pattern', PATTERNS)
    lat.array = [(pat * 3)[i + (i // 9)] for i in range(nel)]
    lat.single = False
    for k, (ax, val) in enumerate([(0, -9.0), (0, 9.0), (1, -9.0), (1, 9.0), (2, -9.0), (2, 9.0)]):
        e = np.zeros(3); e[ax] = 1.0
        d.add_surface(k + 1, 'p', list(Q @ e) + [val])
    d.add_cell(HCell(10, ('*', ('*', ('*', 1, -2), ('*', 3, -4)), ('*', 5, -6)), fill=1))
    d.add_cell(HCell(19, ('^', 10), imp=1))
    d.add_cell(lat)
    d.replica_like = False
    c3 = Q @ np.array([centre2[0], centre2[1], 0.0])
    na = Q @ np.array([1.0, 0.2, 0.0]); nb = Q @ np.array([-0.3, 1.0, 0.0])
    d.add_surface(41, 'p', list(na) + [float(na @ c3) + 0.15])
    d.add_surface(42, 'p', list(nb) + [float(nb @ c3) - 0.1])
    d.add_surface(43, 'p', list(axis) + [float(axis @ c3) + 0.4])
    d.add_surface(44, 'p', list(axis) + [float(axis @ c3) - 0.3])
    d.add_cell(HCell(31, -41, mat=1, rho='-2.7', u=2))
    d.add_cell(HCell(32, ('*', 41, -43), mat=2, rho='-7.8', u=2))
    d.add_cell(HCell(35, ('*', 41, 43), mat=3, rho='-1.0', u=2))
    d.add_cell(HCell(33, -42, mat=3, rho='-1.0', u=3))
    d.add_cell(HCell(34, ('*', 42, 44), mat=1, rho='-2.7', u=3))
    d.add_cell(HCell(36, ('*', 42, -44), mat=2, rho='-7.8', u=3))
    d.mats = dict(c06.MATS)
    d.finish()
    return d


def build_single(ch):
    return build(c06.Preset(ch, {'replica': 0}), allow_far=True)


def build_replica(ch):
    k = ch.choose('replica-kind', [1, 2, 3], free=True)
    return build(c06.Preset(ch, {'replica': k}))


def scenarios(tier):
    q = tier == 'quick'
    return [Scn('hex', build_single, 2 if q else 4, 4, 'one lattice; all choices costed; deviation-bounded'),
            Scn('hex-macrobody', build_macro, 2 if q else None, None,
                'lattice cell bounded by an RHP / HEX macrobody (9 and 15 entries, both senses, stretched)'),
            Scn('hex-replica', build_replica, 1 if q else 2, 2,
                'two lattice cells bounded by the same surfaces, the second a (LIKE n BUT) replica moved by a TRCL')]


def check_state(scn, st):
    v = c06.check_state(scn, st)
    return v


def canaries():
    from ..explore import Chooser
    st = build_single(Chooser(()))
    ok = c06.check_state('hex', st)['ok']
    st2 = build_single(Chooser(()))
    lat = st2.cell(20)
    lat.base = [lat.base[1], lat.base[0]]
    return [('c07-baseline', ok), ('c07-swapped-base-vectors-detected', not c06.check_state('hex', st2)['ok'])]


def finish(agg, tier):
    if agg['stats'].get('elements', 0) < 500:
        raise Vacuous('too few lattice elements')
    return {}
