"""C14 - output does not depend on MCNP-insignificant formatting of the deck.

E2: explicit-state search over rewrite sequences.  A state is a deck text; a
transition applies one rewrite at one site.  States are de-duplicated on their
text (identity, no merging argument needed) in the enumerating process.
"""
import os
import re

import numpy as np

from .. import env, t4read, oracle
from ..runner import Scn, verdict, sha, Vacuous

ID = 'C14'
LEVEL = 'model_checking'
RULE = ('E2 breadth-first search over rewrite sequences (depth = number of rewrites) from 4 base decks that '
        'together contain every card type; one transition = one rewrite at one site: upper-case a card, blank '
        '-> several blanks / tab, 1 or 4 leading blanks, split a card at a token boundary with 5 blanks / a tab '
        '/ a trailing &, append a $ comment, insert a c comment line (also inside a continued card), prepend a '
        'message block, respell one number (5, 5., 5.0, 5.0E+0, +5, 0.5e1, Fortran 0.5+1 and 0.5d1; densities '
        'only within their composition-name class), replace a data-card run by nR / nM / nI shorthand or expand '
        'it; sites capped per card at the first, middle and last token boundary; states de-duplicated on deck '
        'text; invariant: the parsed output (surfaces, volumes, compositions numerically, GEOMCOMP, boundary '
        'conditions) equals that of the base deck; non-trivial = text differs from the base deck; base deck E: LIKE n BUT cards with IMP / MAT / RHO / *TRCL overrides')
ASSUMPTIONS = ['the listed rewrites are MCNP-equivalent (MCNP manual: card format, continuation, comments, '
               'message block, number formats, nR/nI/nM/nJ)',
               'compositions are compared numerically (fractions are echoed verbatim by the writer)']

BASE = {}
BASE['A'] = """base deck A
1 1 -2.7 -1 2 -3 imp:n=1
2 2 6.4-2 (1:-2) -4 #3 imp:n=1
3 0 -5 imp:n=1
4 0 4 imp:n=0

1 px 5
2 px -5
3 cz 4.5
4 so 20
5 7 rpp 6 8 -1 1 -2.5 2

tr7 0 1.5 0 0 1 0 -1 0 0 0 0 1
m1 13027.70c 1.
m2 1001 2 8016 1
"""
BASE['B'] = """base deck B
10 0 -11 12 -13 14 fill=1 imp:n=1
11 0 11:-12:13:-14 imp:n=0
20 3 -1.0 -21 22 -23 24 lat=1 u=1 fill=0:1 0:1 2 3r imp:n=1
31 1 -2.70 -31 u=2 imp:n=1
32 0 31 u=2 trcl=(0.25 0 -0.125) imp:n=1

11 px 4
12 px -4
13 py 4
14 py -4
21 px 1
22 px -1
23 py 1
24 py -1
31 so 0.5

m1 26056 0.9 26054 0.1
m3 1001 -0.11 8016 -0.89
"""
BASE['C'] = """base deck C
1 1 -2.7 -1 imp:n=1
2 like 1 but trcl=(5 0 0) rho=-1.35
3 0 -2 #1 #2 fill=4 (-0.5 0 1) imp:n=1
4 0 2 imp:n=0
41 2 -7.8 -3 u=4 imp:n=1
42 0 3 u=4 *trcl=(0 0 0.5 0 90 90 90 0 90 90 90 0) imp:n=1

1 k/z 0 0 -2 0.25 1
*2 so 15
3 p 1 1 0 0.5

m1 13027 1
m2 26056 1
"""
BASE['D'] = """base deck D
1 0 -1 (2:#(3 -4)) imp:n,p=1
2 0 #1 -5 imp:n=1
3 0 5

1 s 0 0 0 6
2 py 1.5
3 px -2
4 px 2.5
5 so 30

imp:n 1 1 0
imp:p 1 0 0
"""
BASE['E'] = """base deck E
1 1 -2.7 -1 imp:n=1 imp:p=1
2 like 1 but trcl=(5 0 0) imp:n=0 imp:p=0
3 like 1 but *trcl=(-5 0 0 30 60 90 120 30 90 90 90 0) mat=2 rho=-7.8 imp:n=2
4 0 1 #2 #3 -2 imp:n,p=1
5 0 2 imp:n=0 imp:p=0

1 rcc 0 0 -1 0 0 2 1.5
2 so 40

m1 13027 1
m2 26056 1
"""

NUM = r'[-+]?(?:\d+\.?\d*|\.\d+)(?:[eEdD][-+]?\d+|[-+]\d+)?'
RE_NUM = re.compile('^' + NUM + '$')


def fval(tok):
    t = tok.lower().replace('d', 'e')
    m = re.match(r'^([-+]?[0-9.]+)([-+][0-9]+)$', t)
    if m:
        t = m.group(1) + 'e' + m.group(2)
    return float(t)


def respellings(tok):
    """Alternative spellings of the same real number."""
    v = fval(tok)
    out = []
    sign = '-' if v < 0 else ''
    a = abs(v)

    def dec(x):
        s = repr(float(x))
        return s
    if a == int(a) and a < 1e6:
        i = int(a)
        out += ['%s%d' % (sign, i), '%s%d.' % (sign, i), '%s%d.0' % (sign, i), '%s%d.0E+0' % (sign, i),
                '%s%de0' % (sign, i)]
        if not sign:
            out.append('+%d' % i)
    base = dec(a)
    if 'e' not in base:
        out += [sign + base, sign + base + '0']
        if not sign:
            out.append('+' + base)
        # shift the decimal point: 0.5e1, Fortran 0.5+1, 0.5d1
        mant = dec(a / 10.0)
        if fval(mant + 'e1') == a:
            out += ['%s%se1' % (sign, mant), '%s%s+1' % (sign, mant), '%s%sd1' % (sign, mant),
                    '%s%sE+01' % (sign, mant)]
        mant2 = dec(a * 10.0)
        if fval(mant2 + 'e-1') == a:
            out += ['%s%s-1' % (sign, mant2), '%s%sD-1' % (sign, mant2)]
    if 0 < a < 1 and 'e' not in base:
        nz = base[1:]                      # '.5'
        out += [sign + nz, sign + nz + '0', sign + nz + 'e0', sign + nz + 'E+00']
        if not sign:
            out.append('+' + nz)
    res = []
    for o in out:
        try:
            if fval(o) == v and o != tok and o not in res:
                res.append(o)
        except ValueError:
            pass
    return res


def density_respellings(tok):
    """Spellings that stay inside the composition-name class of C09."""
    out = []
    m = re.match(r'^([-+]?\d*\.\d*?)(0*)$', tok)
    if m and '.' in tok:
        out += [tok + '0', tok + '00']
        if m.group(2):
            out.append(m.group(1) if not m.group(1).endswith('.') else m.group(1) + '0')
    m = re.match(r'^([-+]?[0-9.]+)(?:[eEdD]([-+]?\d+)|([-+]\d+))$', tok)
    if m:
        mant, ex = m.group(1), m.group(2) or m.group(3)
        for form in ('%se%s', '%sE%s', '%sd%s', '%sD%s'):
            out.append(form % (mant, ex))
        if ex[0] in '+-':
            out.append(mant + ex)
        if '.' in mant:
            out.append(mant + '0e' + ex)
    return [o for o in dict.fromkeys(out) if o != tok]


QUICK = {'on': False}      # set by scenarios(): the quick tier takes two number sites per card and 8 spellings each


def cap(sites):
    """first, middle and last of a list of sites (quick tier: first and last)"""
    if QUICK['on'] and len(sites) > 2:
        return [sites[0], sites[-1]]
    if len(sites) <= 3:
        return sites
    return [sites[0], sites[len(sites) // 2], sites[-1]]


def card_starts(lines, first):
    """indices of lines that start a card inside lines[first:] up to the blank line"""
    out = []
    i = first
    while i < len(lines) and lines[i].strip():
        l = lines[i]
        is_comment = re.match(r'^\s{0,4}[cC](\s|$)', l)
        is_cont = re.match(r'^(\s{5,}|\t)', l) or (i > first and re.search(r'&\s*(\$.*)?$', lines[i - 1])
                                                  and not re.match(r'^\s{0,4}[cC](\s|$)', lines[i - 1]))
        if not is_comment and not is_cont:
            out.append(i)
        i += 1
    return out, i


def structure(text):
    """(lines, list of (block kind, [line indices of card starts], end index))"""
    lines = text.split('\n')
    i = 0
    if lines and lines[0].lower().startswith('message:'):
        while i < len(lines) and lines[i].strip():
            i += 1
        i += 1
    title = i
    blocks = []
    i = title + 1
    for kind in 'csd':
        starts, end = card_starts(lines, i)
        blocks.append((kind, starts, end))
        i = end + 1
        if i >= len(lines):
            break
    return lines, title, blocks


def number_sites(kind, line):
    """indices of tokens of a one-line card that are real-number parameters, and density token index"""
    toks = line.split(' ')
    idx = [k for k, t in enumerate(toks) if t != '']
    words = [toks[k] for k in idx]
    sites, dens = [], None
    if kind == 's':
        # [flag]num [tr] mnemonic params...
        m = next((j for j, w in enumerate(words) if re.match(r'^[a-zA-Z/]+$', w)), None)
        if m is not None:
            sites = [idx[j] for j in range(m + 1, len(words)) if RE_NUM.match(words[j])]
            if words[m].lower() == 'arb':
                sites = sites[:24]
    elif kind == 'd':
        w0 = words[0].lower()
        if w0.startswith('tr') or w0.startswith('*tr'):
            sites = [idx[j] for j in range(1, len(words)) if RE_NUM.match(words[j])]
        elif re.match(r'^m\d+$', w0):
            sites = [idx[j] for j in range(2, len(words), 2) if RE_NUM.match(words[j])]
        elif w0.startswith('imp:'):
            sites = [idx[j] for j in range(1, len(words)) if RE_NUM.match(words[j])]
    elif kind == 'c':
        if len(words) > 2 and words[1] != '0' and words[1].lower() != 'like' and RE_NUM.match(words[2]):
            dens = idx[2]
        # numbers inside the parentheses of trcl / fill transformations (parentheses may be glued to them)
        depth = 0
        for j, w in enumerate(words):
            lw = w.lower()
            opens = '(' in w and ('trcl' in lw or 'fill' in lw or (j > 0 and 'fill' in words[j - 1].lower()))
            if opens or depth:
                core = w.split('(')[-1].rstrip(')')
                if core and RE_NUM.match(core):
                    sites.append(idx[j])
                depth = 0 if ')' in w else 1
    return toks, sites, dens


def shorthand_rewrites(line, kind):
    """data-card shorthand on imp cards / FILL arrays of one-line cards"""
    out = []
    words = line.split()
    if kind == 'd' and words and words[0].lower().startswith('imp:'):
        vals = words[1:]
        # expand
        exp = []
        ok = True
        for v in vals:
            m = re.match(r'^(\d*)([rR])$', v)
            if m and exp:
                exp += [exp[-1]] * int(m.group(1) or 1)
            elif RE_NUM.match(v):
                exp.append(v)
            else:
                ok = False
        if ok:
            if exp != vals:
                out.append(' '.join([words[0]] + exp))
            # compress runs
            comp = []
            i = 0
            while i < len(exp):
                j = i
                while j + 1 < len(exp) and exp[j + 1] == exp[i]:
                    j += 1
                comp.append(exp[i])
                if j > i:
                    comp.append('%dr' % (j - i))
                i = j + 1
            if comp != vals:
                out.append(' '.join([words[0]] + comp))
                out.append(' '.join([words[0]] + [c.upper() for c in comp]))
            # 1 1 0 -> 1 r 0 ; x 2x -> x 2m ; a a+1 a+2 -> a 1i a+2
            for k in range(1, len(exp)):
                try:
                    a, b = fval(exp[k - 1]), fval(exp[k])
                except ValueError:
                    continue
                if a != 0 and b == 2 * a:
                    out.append(' '.join([words[0]] + exp[:k] + ['2m'] + exp[k + 1:]))
                if k + 1 < len(exp):
                    try:
                        c = fval(exp[k + 1])
                    except ValueError:
                        continue
                    if b - a == c - b and b != a:
                        out.append(' '.join([words[0]] + exp[:k] + ['1i'] + exp[k + 1:]))
    if kind == 'c' and ' fill=' in line.lower():
        m = re.search(r'(fill=(?:\s*-?\d+:-?\d+)+)((?:\s+\d+[rR]?)+)', line, re.I)
        if m:
            vals = m.group(2).split()
            exp = []
            for v in vals:
                mm = re.match(r'^(\d*)([rR])$', v)
                if mm and exp:
                    exp += [exp[-1]] * int(mm.group(1) or 1)
                else:
                    exp.append(v)
            if exp != vals:
                out.append(line[:m.start(2)] + ' ' + ' '.join(exp) + line[m.end(2):])
            if len(exp) >= 2 and exp[-1] == exp[-2]:
                k = len(exp) - 1
                while k > 0 and exp[k - 1] == exp[-1]:
                    k -= 1
                comp = exp[:k + 1] + ['%dr' % (len(exp) - k - 1)]
                if comp != vals:
                    out.append(line[:m.start(2)] + ' ' + ' '.join(comp) + line[m.end(2):])
    return out


import functools


@functools.lru_cache(maxsize=20000)
def rewrites(text):
    """All one-step rewrites of the deck text: list of (label, new text)."""
    lines, title, blocks = structure(text)
    out = []

    def put(label, newlines):
        out.append((label, '\n'.join(newlines)))

    if not lines[0].lower().startswith('message:'):
        put('message-block', ['message: outp=x.o runtpe=x.r', ''] + lines)
        put('message-block:mixed-case', ['Message: outp=x.o runtpe=x.r', ''] + lines)
        put('message-block:upper', ['MESSAGE:  OUTP=X.O', '      RUNTPE=X.R', ''] + lines)
    for kind, starts, end in blocks:
        for s in starts:
            L = lines[s]
            nxt = min([t for t in starts if t > s] + [end])
            single = (nxt == s + 1)       # card occupies one line
            tag = '%s%d' % (kind, s)
            # case
            if L != L.upper() and '$' not in L:
                put('upper:' + tag, lines[:s] + [L.upper()] + lines[s + 1:])
            # leading blanks
            if not L.startswith(' '):
                for nb in (1, 4):
                    put('lead%d:%s' % (nb, tag), lines[:s] + [' ' * nb + L] + lines[s + 1:])
            # $ comment
            if '$' not in L and '&' not in L:
                put('dollar:' + tag, lines[:s] + [L + ' $ a comment, with = ( signs'] + lines[s + 1:])
            # c comment before the card
            put('ccomment:' + tag, lines[:s] + ['c a comment line'] + lines[s:])
            put('ccomment:%s-indented' % tag, lines[:s] + ['    C  indented comment 1 2 3 $ &'] + lines[s:])
            put('ccomment:%s-bare' % tag, lines[:s] + ['c'] + lines[s:])
            put('ccomment:%s-tab' % tag, lines[:s] + ['c\ta comment after a tab'] + lines[s:])
            if not single:
                put('ccomment-inside:' + tag, lines[:s + 1] + ['C'] + lines[s + 1:])
                put('ccomment-inside:%s-tab' % tag, lines[:s + 1] + ['c\t1 2 3'] + lines[s + 1:])
            # blanks / splits at token boundaries (first, middle, last) of the first line
            code = L.split('$')[0]
            blanks = [m.start() for m in re.finditer(r'(?<=\S) (?=\S)', code)]
            # never split / stretch inside parentheses-free keyword tokens: boundaries are single blanks only
            for b in cap(blanks[1:] if len(blanks) > 1 else blanks):
                put('blanks:%s@%d' % (tag, b), lines[:s] + [L[:b] + '   ' + L[b + 1:]] + lines[s + 1:])
                put('tab:%s@%d' % (tag, b), lines[:s] + [L[:b] + '\t' + L[b + 1:]] + lines[s + 1:])
                if '$' not in L and '&' not in L:
                    put('split5:%s@%d' % (tag, b), lines[:s] + [L[:b], '     ' + L[b + 1:]] + lines[s + 1:])
                    put('splittab:%s@%d' % (tag, b), lines[:s] + [L[:b], '\t' + L[b + 1:]] + lines[s + 1:])
                    put('splitamp:%s@%d' % (tag, b), lines[:s] + [L[:b] + ' &', L[b + 1:]] + lines[s + 1:])
            # three lines mixing both continuation styles: the indented second line itself ends with &
            if single and '$' not in L and '&' not in L and len(blanks) >= 4:
                b1, b2 = blanks[len(blanks) // 3], blanks[(2 * len(blanks)) // 3]
                if b1 < b2:
                    put('mixed3:' + tag, lines[:s] + [L[:b1], '      ' + L[b1 + 1:b2] + ' &', L[b2 + 1:]] + lines[s + 1:])
                    put('mixed3:%s-amp-first' % tag, lines[:s] + [L[:b1] + ' &', L[b1 + 1:b2], '      ' + L[b2 + 1:]] + lines[s + 1:])
            # the material number of a cell card is an integer field: leading zeros and a sign of zero are allowed
            if kind == 'c' and single and '$' not in L:
                mm = re.match(r'^(\s*\d+\s+)(\d+)(\s.*)$', L)
                if mm and not re.search(r'(?i)\blike\b', L):
                    alts = ['0' + mm.group(2), '00' + mm.group(2)] + (['+0', '-0'] if mm.group(2) == '0' else ['+' + mm.group(2)])
                    for alt in alts:
                        put('matnum:%s=%s' % (tag, alt), lines[:s] + [mm.group(1) + alt + mm.group(3)] + lines[s + 1:])
            # numbers and shorthand: one-line cards without comments only
            if single and '$' not in L and '&' not in L and '\t' not in L:
                toks, sites, dens = number_sites(kind, L)
                for k in cap(sites):
                    m = (re.match(r'^(imp:[a-zA-Z,]+=|[rR][hH][oO]=)(' + NUM + r')()$', toks[k])
                         or re.match(r'^(.*\()?(' + NUM + r')(\)*)$', toks[k]))
                    pre, core, post = (m.group(1) or ''), m.group(2), m.group(3)
                    alts = respellings(core)
                    if QUICK['on'] and len(alts) > 8:
                        alts = alts[::max(1, len(alts) // 8)][:8]
                    for alt in alts:
                        nl = ' '.join(toks[:k] + [pre + alt + post] + toks[k + 1:])
                        form = ('numD' if re.search(r'[dD]', alt) else
                                'numF' if re.search(r'\d[-+]\d', alt) else 'num')
                        put('%s:%s#%d=%s' % (form, tag, k, alt), lines[:s] + [nl] + lines[s + 1:])
                if dens is not None:
                    for alt in density_respellings(toks[dens]):
                        nl = ' '.join(toks[:dens] + [alt] + toks[dens + 1:])
                        put('density:%s=%s' % (tag, alt), lines[:s] + [nl] + lines[s + 1:])
                for nl in shorthand_rewrites(L, kind):
                    put('shorthand:%s' % tag, lines[:s] + [nl] + lines[s + 1:])
    seen = set()
    res = []
    for label, t in out:
        if t != text and t not in seen:
            seen.add(t)
            res.append((label, t))
    return res


class St:
    def __init__(self, base, text, path):
        self.base, self.deck_text, self.path = base, text, path
        self.options = []


_SEEN = {}
_MAIN = os.getpid()


STRUCTURAL = ('mixed3', 'matnum', 'message-block', 'upper', 'lead1', 'lead4', 'dollar', 'ccomment', 'ccomment-inside', 'blanks', 'tab',
              'split5', 'splittab', 'splitamp', 'shorthand')


NUMERIC = ('num', 'numD', 'numF', 'density')


def builder(base, depth, kinds=None, numpairs=True):
    def build(ch):
        text = BASE[base]
        path = []
        for step in range(depth):
            rw = rewrites(text)
            if kinds is not None:
                rw = [x for x in rw if x[0].split(':')[0] in kinds]
            if not numpairs and any(p.split(':')[0] in NUMERIC for p in path):
                # quick tier: a number respelling is combined with every structural rewrite, not with a
                # second number respelling (those pairs are in the thorough tier)
                rw = [x for x in rw if x[0].split(':')[0] not in NUMERIC]
            k = ch.choose('rewrite%d' % step, ['stop'] + list(range(len(rw))))
            if k == 'stop':
                break
            path.append(rw[k][0])
            text = rw[k][1]
        # explicit-state de-duplication (enumerating process only)
        if os.getpid() == _MAIN and path:
            key = (base, kinds is None, text)
            first = _SEEN.setdefault(key, tuple(ch.trace[:len(path)]))
            if first != tuple(ch.trace[:len(path)]):
                ch.reject('state already visited')
        return St(base, text, path)
    return build


def scenarios(tier):
    q = tier == 'quick'
    QUICK['on'] = q
    rewrites.cache_clear()
    out = [Scn('deck' + b, builder(b, 2, numpairs=not q), 2, 2,
               'rewrite sequences of length <= 2, all rewrite kinds' + (' (pairs of two number respellings: thorough tier)' if q else ''))
           for b in 'ABCDE']
    if tier != 'quick':
        # depth 3 over the structural rewrites (case, blanks, continuation, comments, message block, shorthand);
        # number respellings stay at depth 2
        out += [Scn('deck%s-d3' % b, builder(b, 3, STRUCTURAL), 3, 3,
                    'rewrite sequences of length <= 3, structural rewrite kinds') for b in 'EDCBA']
    return out


def canon(t4):
    surfs = {k: (v[0], tuple(v[1]), v[2]) for k, v in t4.surfs.items()}
    trs = {k: tuple(v) for k, v in t4.transforms.items()}
    vols = {k: (tuple(sorted(v['plus'])), tuple(sorted(v['minus'])),
                (v['op'][0], tuple(v['op'][1])) if v['op'] else None, v['fictive'], v['comment'])
            for k, v in t4.vols.items()}
    comps = [(c['kind'], c['name'], c['density'], c['nb_atom'], tuple((x[0], x[1]) for x in c['items']))
             for c in t4.compos]
    return dict(surfs=surfs, trs=trs, vols=vols, order=tuple(t4.vol_order), comps=comps,
                gc=tuple((n, c, tuple(i)) for n, c, i in t4.geomcomp), bc=tuple(t4.bcs))


_base_cache = {}


def base_canon(base):
    if base not in _base_cache:
        r = env.run(BASE[base])
        if not r.ok:
            # the outcome of the base spelling is an error: every respelling must then fail alike
            _base_cache[base] = (('error', r.exc_type), r.brief())
        else:
            _base_cache[base] = (canon(t4read.parse(r.t4)), r.body)
    return _base_cache[base]


def check_state(scn, st):
    want, want_body = base_canon(st.base)
    r = env.run(st.deck_text, st.options)
    kinds = sorted(set(p.split(':')[0] for p in st.path))
    fortran = [k for k in kinds if k in ('numD', 'numF')]
    if fortran:
        kinds = fortran        # classify by the Fortran number form when one is present
    if isinstance(want, tuple):
        # the base spelling does not convert
        if not r.ok and r.exc_type == want[1]:
            return verdict(True, st, out='err:' + r.exc_type, nontrivial=False, stats={'base_fails': 1})
        return verdict(False, st, cls={'kind': 'base-fails-rewrite-differs', 'exc': want[1], 'rewrites': ','.join(kinds)},
                       msg='the base spelling fails (%s) but after rewrites %s the outcome is %s\n%s'
                       % (want_body, st.path, 'a finished conversion' if r.ok else r.brief(), st.deck_text),
                       out=sha(r.body) if r.ok else 'err:' + r.exc_type)
    if not r.ok:
        return verdict(False, st, cls={'kind': 'exception', 'exc': r.exc_type, 'rewrites': ','.join(kinds)},
                       msg='rewrites %s: conversion failed: %s\n%s' % (st.path, r.brief(), st.deck_text),
                       out='err:' + r.exc_type)
    t4 = t4read.parse(r.t4)
    got = canon(t4)
    if got != want:
        diff = [k for k in want if want[k] != got[k]]
        detail = []
        for k in diff[:3]:
            detail.append('%s:\n  base   %s\n  rewrite %s' % (k, str(want[k])[:400], str(got[k])[:400]))
        return verdict(False, st, cls={'kind': 'output-differs', 'rewrites': ','.join(kinds), 'part': diff[0]},
                       msg='rewrites %s change the output (%s)\n%s\n%s' % (st.path, diff, '\n'.join(detail),
                                                                           st.deck_text), out=sha(r.body))
    return verdict(True, st, out=sha(r.body), nontrivial=bool(st.path),
                   stats={'byte_identical': int(r.body == want_body), 'rewrite_kinds': set(kinds)})


def canaries():
    out = []
    # the rewrite generator must produce every rewrite kind on the base decks
    kinds = set()
    for b in BASE:
        kinds |= set(l.split(':')[0] for l, _ in rewrites(BASE[b]))
    need = {'message-block', 'upper', 'lead1', 'lead4', 'dollar', 'ccomment', 'blanks', 'tab', 'split5', 'splittab',
            'splitamp', 'num', 'numD', 'numF', 'density', 'shorthand'}
    out.append(('c14-all-rewrite-kinds-generated', need <= kinds))
    # a semantic change (different number) must be seen by the comparator
    st = St('A', BASE['A'].replace('1 px 5', '1 px 5.5'), ['fake:change'])
    out.append(('c14-semantic-change-detected', not check_state('deckA', st)['ok']))
    return out


def finish(agg, tier):
    kinds = agg['stats'].get('rewrite_kinds', set())
    if agg['stats'].get('base_fails', 0):
        raise Vacuous('a base deck does not convert (%d states compared only the error)' % agg['stats']['base_fails'])
    if len(kinds) < 12:
        raise Vacuous('only rewrite kinds %s exercised' % sorted(kinds))
    return {'rewrite_kinds': sorted(kinds), 'byte_identical_states': agg['stats'].get('byte_identical', 0)}
