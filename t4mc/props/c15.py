"""C15 - LIKE n BUT equals the explicit cell card it abbreviates."""
import itertools

import numpy as np

from .. import env, t4read, oracle, geomdecide
from ..deck import Deck
from ..runner import Scn, verdict, sha, Vacuous

ID = 'C15'
DECORATE = True
LEVEL = 'model_checking'
RULE = ('E1 enumeration: base cell (void / material) x 3 geometries x base options (U, FILL, TRCL, IMP); BUT '
        'overrides = every subset of {MAT, RHO, U, FILL, TRCL, *TRCL, IMP} with two values each; LIKE-of-LIKE '
        'chains of length 2 and 3; base cell before or after the LIKE cell; LIKE copies of a lattice cell with '
        'their own / the same / missing --lattice ranges; differential oracle: the generator '
        'expands the abbreviation itself (copy + override) and both decks are converted: same non-virtual volume '
        'ids, same membership of every volume at plane-arrangement witnesses + lattice, same compositions and '
        'GEOMCOMP association; non-trivial = at least one override; distinct = deck text; also: identity TRCL overrides, MAT=0, importances on a data card with a zero entry at the LIKE / base position, chains of 6 / 12 / 30, LIKE copies of lattice cells, U=0 in the BUT list')
ASSUMPTIONS = ['LIKE n BUT = copy of the card of cell n with the listed parameters replaced (MCNP manual)',
               'MAT on a void base cell is only generated together with RHO']

LAT = geomdecide.lattice_points(-9.0, 9.0, 19)

GEOMS = ['-1', '-1 3', '(-1 : -6) 3']
OV_KEYS = ['mat', 'rho', 'u', 'fill', 'trcl', '*trcl', 'imp']
OV_VALUES = {
    'mat': ['2', '3', '0'], 'rho': ['-3.5', '-0.8'], 'u': ['7', '8', '0'], 'fill': ['6', '5', '6 (0 -1 0)', '6 (9)'],
    # (an identity TRCL in the BUT list replaces an inherited TRCL like any other value)
    'trcl': ['(5 0 0)', '(0 5 1 0 1 0 -1 0 0 0 0 1)', '(0 0 0)', '(0 0 0 1 0 0 0 1 0 0 0 1)', '10'],
    '*trcl': ['(0 -5 0)', '(4 4 0 90 0 90 180 90 90 90 90 0)', '(0 0 0 0 90 90 90 0 90 90 90 0)'],
    'imp': ['n=0', 'n=2', 'n,p=0', 'n=0 p=0', 'p,n=0', 'p=0'],
}


class Cell:
    def __init__(self, num, mat='0', rho=None, geom='-1', u=None, fill=None, trcl=None, startrcl=None, imp=None):
        self.num, self.mat, self.rho, self.geom = num, mat, rho, geom
        self.u, self.fill, self.trcl, self.startrcl = u, fill, trcl, startrcl
        self.imp = dict(imp or {'n': '1'})      # importance per particle type
        self.imp_spelling = None                # spelling on the base card (e.g. 'imp:n,p=1')

    def copy(self, num):
        c = Cell(num)
        c.__dict__.update(self.__dict__)
        c.imp = dict(self.imp)
        c.imp_spelling = None
        c.num = num
        return c

    def options(self):
        o = []
        if self.u:
            o.append('u=%s' % self.u)
        if self.fill:
            o.append('%sfill=%s' % ('*' if getattr(self, 'star_fill', False) else '', self.fill))
        if self.trcl:
            o.append('trcl=%s' % self.trcl)
        if self.startrcl:
            o.append('*trcl=%s' % self.startrcl)
        if self.imp_spelling:
            o.append(self.imp_spelling)
        else:
            o.append(' '.join('imp:%s=%s' % kv for kv in sorted(self.imp.items())))
        return ' '.join(o)

    def card(self):
        m = self.mat if self.mat == '0' else '%s %s' % (self.mat, self.rho)
        return '%d %s %s %s' % (self.num, m, self.geom, self.options())


def apply_override(cell, ov):
    for k, v in ov:
        if k == 'mat':
            cell.mat = v
        elif k == 'rho':
            cell.rho = v
        elif k == 'u':
            cell.u = v
        elif k == 'fill':
            cell.fill = v
            cell.star_fill = False
        elif k == 'trcl':
            cell.trcl = v; cell.startrcl = None
        elif k == '*trcl':
            cell.startrcl = v; cell.trcl = None
        elif k == 'imp':
            # IMP:N and IMP:P are separate parameters: only the listed particle types are replaced
            for part in v.split():
                particles, val = part.split('=')
                for pt in particles.split(','):
                    cell.imp[pt] = val
    return cell


def but_text(ov, ch, label):
    parts = []
    for k, v in ov:
        if k == 'imp':
            parts.append(' '.join('imp:' + part for part in v.split()))
        else:
            parts.append('%s=%s' % (k, v))
    return ' '.join(parts)


def choose_overrides(ch, label, base, force=None):
    ov = []
    for k in OV_KEYS:
        if ch.choose('%s.%s' % (label, k), [False, True]) or (force and k in force):
            v = ch.choose('%s.%s.v' % (label, k), OV_VALUES[k])
            ov.append((k, v))
    keys = [k for k, _ in ov]
    if 'trcl' in keys and '*trcl' in keys:
        ch.reject()
    if 'mat' in keys and dict(ov)['mat'] != '0' and base.mat == '0' and 'rho' not in keys:
        ch.reject()
    if 'mat' in keys and dict(ov)['mat'] == '0' and 'rho' in keys:
        ch.reject('a void cell takes no density')
    if 'rho' in keys and base.mat == '0' and 'mat' not in keys:
        ch.reject()
    if 'rho' in keys and base.mat == '0' and dict(ov).get('mat') == '0':
        ch.reject()
    order = ch.choose('%s.order' % label, ['given', 'reversed'])
    if order == 'reversed':
        ov = ov[::-1]
    return ov


def build(chain_len):
    def bld(ch):
        st = Deck('c15 like-but')
        base = Cell(1)
        if ch.choose('base-mat', [False, True]):
            base.mat, base.rho = '1', '-2.7'
        base.geom = ch.choose('geom', GEOMS)
        bimp = ch.choose('base-imp', ['imp:n=1', 'imp:n,p=1', 'imp:n=1 imp:p=2', 'imp:p=1 imp:n=2'])
        base.imp_spelling = bimp
        base.imp = {}
        for part in bimp.split():
            particles, val = part[4:].split('=')
            for pt in particles.split(','):
                base.imp[pt] = val
        bo = ch.choose('base-options', ['plain', 'fill', 'trcl', 'fill+trcl', 'u', 'filltr', 'filltr-num+trcl',
                                         'starfilltr'])
        if bo == 'filltr':
            base.fill = '5 (0 1 0.5)'          # FILL with its own transformation: LIKE n BUT FILL=u must drop it
        elif bo == 'filltr-num+trcl':
            base.fill = '5 (9)'
        elif bo == 'starfilltr':
            base.fill = '5 (0.5 0 0 0 90 90 90 0 90 90 90 0)'
            base.star_fill = True
        elif 'fill' in bo:
            base.fill = '5'
        if 'trcl' in bo:
            base.trcl = '(0 0 2)'
        if bo == 'u':
            base.u = '7'
        cells = [base]
        likes = []
        prev = base
        for i in range(chain_len):
            num = 2 + i if chain_len <= 6 else 200 + i      # (cells 8, 9, ... are taken by the fixed part)
            ov = choose_overrides(ch, 'c%d' % num, prev)
            like_card = '%d like %d but %s' % (num, prev.num, but_text(ov, ch, 'c%d' % num))
            expl = apply_override(prev.copy(num), ov)
            likes.append((like_card, expl))
            cells.append(expl)
            prev = expl
        base_first = ch.choose('base-first', [True, False])
        fixed = [
            '8 0 -5 fill=7 imp:n=1',
            '81 0 -7 fill=8 imp:n=1',
            '9 0 -2 5 7 %s imp:n=1' % ' '.join('#%d' % c.num for c in cells),
            '51 1 -2.7 -3 u=5 imp:n=1', '52 2 -7.8 3 u=5 imp:n=1',
            '61 3 -1.0 -4 u=6 imp:n=1', '62 1 -2.7 4 u=6 imp:n=1',
            '99 0 2 imp:n=0',
        ]
        a_cards = [base.card()] + [lk for lk, _ in likes]
        b_cards = [base.card()] + [ex.card() for _, ex in likes]
        if not base_first:
            a_cards = a_cards[1:] + a_cards[:1]
            b_cards = b_cards[1:] + b_cards[:1]
        st.cells = a_cards + fixed
        st.explicit_cells = b_cards + fixed
        st.surfs = ['1 so 2', '2 so 20', '3 px 0.25', '4 py -0.5', '5 s 0 0 7 1.5', '6 s 1.5 0 0 1.5',
                    '7 s 0 0 -7 1.5']
        st.data = ['m1 13027 1', 'm2 26056 1', 'm3 1001 2 8016 1', 'tr9 0.5 -0.5 0 0 1 0 -1 0 0 0 0 1', 'tr10 0 0 0']
        # importances on the cell cards, or all of them on one IMP:N data card (a LIKE cell then takes the entry
        # at its own position)
        if ch.choose('importances', ['cell-cards', 'data-card']) == 'data-card':
            import re as _re
            pat = _re.compile(r'\s+imp:([a-z,]+)=(\S+)')
            vals = []
            for card in st.explicit_cells:
                found = pat.findall(card)
                if len(found) != 1 or found[0][0] != 'n':
                    ch.reject('importances not of the single imp:n=v form')
                vals.append(found[0][1])
            if any('imp:' in lk.split(' but ')[1] for lk, _ in likes):
                ch.reject('an IMP override needs cell-card importances')
            st.cells = [pat.sub('', c) for c in st.cells]
            st.explicit_cells = [pat.sub('', c) for c in st.explicit_cells]
            # the entry of one LIKE cell (or of the base cell) may be 0 while its neighbours' are not: a wrong
            # position on the card then shows as a cell too many or too few
            zero = ch.choose('zero-entry', ['none', 'last-like', 'base', 'first-like'])
            target = {'none': None, 'last-like': likes[-1][1].num, 'base': base.num, 'first-like': likes[0][1].num}[zero]
            if target is not None:
                k = [i for i, c in enumerate(st.explicit_cells) if c.split()[0] == str(target)][0]
                vals[k] = '0'
                # the rest-of-the-world cell refers to the omitted cell with #n: still well defined
            st.data.append('imp:n ' + ' '.join(vals))
        st.noverrides = sum(len(lk.split(' but ')[1].split()) for lk, _ in likes)
        return st
    return bld


def build_lattice(ch):
    """the copied cell is a lattice: FILL=u with --lattice ranges for each lattice cell, or a FILL array"""
    st = Deck('c15 like-but of a lattice cell')
    mode = ch.choose('fill-mode', ['option', 'array'])
    r20 = ch.choose('range20', ['-1:1 0:0', '0:1 0:1', '0:2'])
    geom = '-11 12 -13 14' if len(r20.split()) > 1 else '-11 12'
    nel = 1
    for r in r20.split():
        lo, hi = r.split(':')
        nel *= int(hi) - int(lo) + 1
    if mode == 'array':
        fill20 = '%s %s' % (r20, ' '.join((['3', '6', '2', '3', '6', '6'] * 2)[:nel]))
    else:
        fill20 = '3'
    base = '20 4 -1.5 %s lat=1 u=2 fill=%s imp:n=1' % (geom, fill20)
    chain = ch.choose('chain', [1, 2])
    like_cards, expl_cards, opts = [], [], []
    if mode == 'option':
        opts += ['--lattice', '20,' + r20.replace(' ', ',')]
    prev_num, prev = 20, dict(u='2', fill=fill20, trcl=None, imp='1', mat='4 -1.5')
    for i in range(chain):
        num = 21 + i
        cur = dict(prev)
        but = []
        cur['u'] = str(4 + 4 * i)
        but.append('u=%s' % cur['u'])
        if mode == 'option' and ch.choose('c%d.fill' % num, [False, True]):
            cur['fill'] = '6'
            but.append('fill=6')
        if ch.choose('c%d.trcl' % num, [False, True]):
            cur['trcl'] = '(0.5 0.25 0)'
            but.append('trcl=(0.5 0.25 0)')
        if ch.choose('c%d.mat' % num, [False, True]):
            cur['mat'] = '1 -2.7'
            but += ['mat=1', 'rho=-2.7']
        if ch.choose('c%d.but-order' % num, ['given', 'reversed']) == 'reversed':
            but = but[::-1]
        like_cards.append('%d like %d but %s' % (num, prev_num, ' '.join(but)))
        expl_cards.append('%d %s %s lat=1 u=%s fill=%s%s imp:n=%s'
                          % (num, cur['mat'], geom, cur['u'], cur['fill'],
                             ' trcl=%s' % cur['trcl'] if cur['trcl'] else '', cur['imp']))
        if mode == 'option':
            # each lattice cell has its own ranges on the command line
            rk = ch.choose('range%d' % num, ['same', '0:1 0:0', '-1:0 -1:1', 'missing'])
            if len(r20.split()) == 1 and rk != 'same' and rk != 'missing':
                rk = rk.split()[0]
            if rk != 'missing':
                opts += ['--lattice', '%d,%s' % (num, (r20 if rk == 'same' else rk).replace(' ', ','))]
        prev_num, prev = num, cur
    opt_order = ch.choose('option-order', ['given', 'reversed'])
    if opt_order == 'reversed' and len(opts) > 2:
        pairs = [opts[k:k + 2] for k in range(0, len(opts), 2)][::-1]
        opts = [x for pr in pairs for x in pr]
    fixed = ['1 0 -1 fill=2 imp:n=1', '5 0 -5 fill=4 imp:n=1']
    outer = '1 5'
    if chain == 2:
        fixed.append('7 0 -7 fill=8 imp:n=1')
        outer += ' 7'
    fixed += ['9 0 %s -2 imp:n=1' % outer, '99 0 2 imp:n=0',
              '31 1 -2.7 -3 u=3 imp:n=1', '32 0 3 u=3 imp:n=1',
              '61 3 -1.0 -4 u=6 imp:n=1', '62 1 -2.7 4 u=6 imp:n=1']
    base_first = ch.choose('base-first', [True, False])
    a_cards = [base] + like_cards
    b_cards = [base] + expl_cards
    if not base_first:
        a_cards, b_cards = a_cards[1:] + a_cards[:1], b_cards[1:] + b_cards[:1]
    st.cells = a_cards + fixed
    st.explicit_cells = b_cards + fixed
    st.surfs = ['1 so 4.5', '5 s 12 0 0 4.5', '7 s 0 12 0 4.5', '2 so 40', '3 px 0.2', '4 py -0.3',
                '11 px 1', '12 px -1', '13 py 1', '14 py -1']
    st.data = ['m1 13027 1', 'm3 1001 2 8016 1', 'm4 26056 1']
    st.options = opts
    st.noverrides = sum(len(c.split(' but ')[1].split()) for c in like_cards)
    return st


def explicit_text(st):
    d = Deck(st.title)
    d.cells, d.surfs, d.data = st.explicit_cells, st.surfs, st.data
    return d.deck_text


def scenarios(tier):
    q = tier == 'quick'
    return [Scn('like1', build(1), 5 if q else 7, 7, 'one LIKE cell; all subsets within the deviation bound'),
            Scn('like2', build(2), 4 if q else 5, 5, 'LIKE of LIKE'),
            Scn('like3', build(3), 3 if q else 4, 4, 'chain of three'),
            Scn('like6', build(6), 2 if q else 3, 3, 'chain of six LIKE cells'),
            Scn('like12', build(12), 1 if q else 2, 2, 'chain of twelve LIKE cells'),
            Scn('like30', build(30), 0 if q else 1, 1, 'chain of thirty LIKE cells'),
            Scn('like-lattice', build_lattice, 4 if q else None, None,
                'LIKE n BUT copies of a lattice cell (FILL=u with per-cell --lattice ranges, or a FILL array)')]


def compare(t4a, t4b, P):
    bad = []
    va, vb = sorted(t4a.nonvirtual()), sorted(t4b.nonvirtual())
    if va != vb:
        bad.append('non-virtual volumes %s vs %s (explicit)' % (va, vb))
    Ea, Eb = t4read.Evaluator(t4a, P), t4read.Evaluator(t4b, P)
    for v in sorted(set(va) & set(vb)):
        ma, mb = Ea.inside(v), Eb.inside(v)
        if (ma != mb).any():
            i = int(np.where(ma != mb)[0][0])
            bad.append('VOLU %s differs at %s: LIKE deck %s, explicit deck %s'
                       % (v, np.round(P[i], 4).tolist(), bool(ma[i]), bool(mb[i])))
    ga = {v: n for n, c, ids in t4a.geomcomp for v in ids}
    gb = {v: n for n, c, ids in t4b.geomcomp for v in ids}
    if ga != gb:
        diff = sorted(set(ga.items()) ^ set(gb.items()))[:4]
        bad.append('GEOMCOMP association differs: %s' % diff)
    ca = sorted((c['name'], c['kind'], c['density'], tuple(x[:2] for x in c['items'])) for c in t4a.compos)
    cb = sorted((c['name'], c['kind'], c['density'], tuple(x[:2] for x in c['items'])) for c in t4b.compos)
    if ca != cb:
        bad.append('COMPOSITION blocks differ')
    return bad


def check_state(scn, st, corrupt=False):
    ra = env.run(st.deck_text, st.options)
    eb = explicit_text(st)
    if corrupt:
        eb = eb.replace('imp:n=1', 'imp:n=0', 1)
    rb = env.run(eb, st.options)
    if ra.ok != rb.ok:
        return verdict(False, st, cls={'kind': 'one-fails', 'which': 'like' if not ra.ok else 'explicit',
                                       'exc': (ra if not ra.ok else rb).exc_type},
                       msg='LIKE deck: %s; explicit deck: %s\n%s\n--- explicit ---\n%s'
                       % (ra.brief(), rb.brief(), st.deck_text, eb), out='err')
    if not ra.ok:
        return verdict(True, st, out='err:' + ra.exc_type, nontrivial=False, stats={'both_fail': 1})
    t4a, t4b = t4read.parse(ra.t4), t4read.parse(rb.t4)
    cls, msg = oracle.structural_cls(t4a)
    if cls and not t4b.problems:
        return verdict(False, st, cls=cls, msg=msg, out=sha(ra.body))
    same_bytes = ra.body == rb.body
    planes = list(t4read.planes_of(t4a)) + list(t4read.planes_of(t4b))
    P = np.vstack([geomdecide.witnesses(planes), LAT])
    bad = compare(t4a, t4b, P)
    stats = {'byte_identical': int(same_bytes), 'probe_points': len(P)}
    if bad:
        keys = sorted(set(w.split('=')[0].split(':')[0] for c in st.cells if ' but ' in c
                          for w in c.split(' but ')[1].split() if '=' in w))
        return verdict(False, st, cls={'kind': 'differs', 'overrides': ','.join(keys)},
                       msg='%s\n%s\n--- explicit ---\n%s' % ('\n'.join(bad[:6]), st.deck_text, eb),
                       out=sha(ra.body), stats=stats)
    return verdict(True, st, out=sha(ra.body), nontrivial=st.noverrides > 0, stats=stats)


def canaries():
    from ..explore import Chooser
    st = build(1)(Chooser(()))
    return [('c15-baseline', check_state('like1', st)['ok']),
            ('c15-different-explicit-deck-detected', not check_state('like1', st, corrupt=True)['ok'])]


def finish(agg, tier):
    return {'byte_identical_states': agg['stats'].get('byte_identical', 0)}
