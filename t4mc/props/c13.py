"""C13 - de-duplication and inlining options never change the geometry."""
import numpy as np

from .. import env, t4read, oracle, hier, refsem, geomdecide
from ..hier import HDeck, HCell, Tr
from ..runner import Scn, verdict, sha, Vacuous
from . import c05, c06, c09

ID = 'C13'
DECORATE = True
LEVEL = 'model_checking'
RULE = ('E1 enumeration: decks (C05 universe trees with shared fillers, deviation-bounded; surface sets '
        'built to stress SurfaceT4 equality/hash: one plane under two numbers, planes 1e-3 apart, PLANEX 1 '
        'vs PLANEY 1 vs PLANEZ 1, equal tori with different TRANSFORM, equal cones with opposite auxiliary '
        'plane sides) x ALL 56 configurations = 2^3 flags (--skip-deduplication, --always-inline-filling, '
        '--always-inline-filled) x --max-inline-score in {-1, 0, 0.5, 1, 1.5, 2.5, 1e9}; oracle: every '
        'configuration agrees with the reference (owner provenance + composition) at all witnesses, hence all '
        'are pairwise equivalent; every surface of a volume in the --skip-deduplication file has a '
        'polynomially identical surface on the same side of the same volume in the de-duplicated file; '
        'non-trivial = deck with at least one FILL or one duplicated surface; distinct = deck text + options')
ASSUMPTIONS = ['geometry and composition semantics as in C05 / C09']

SCORES = ['-1', '0', '0.5', '1.0', '1.5', '2.5', '1e9']


def choose_config(ch):
    opts = []
    if ch.choose('skip-dedup', [False, True], free=True):
        opts.append('--skip-deduplication')
    if ch.choose('inline-filling', [False, True], free=True):
        opts.append('--always-inline-filling')
    if ch.choose('inline-filled', [False, True], free=True):
        opts.append('--always-inline-filled')
    sc = ch.choose('score', ['1.0', '-1', '0', '0.5', '1.5', '2.5', '1e9'], free=True)
    if sc != '1.0' or ch.choose('score-explicit', [False, True], free=True):
        opts += ['--max-inline-score', sc]
    return opts


def b_tree(ch):
    d = c05.build(ch, with_options=False)
    d.rho_cls = {}
    for c in d.hcells:
        d.rho_cls[c.num] = {'-2.7': 'a', '-1.0': 'b', '-0.5': 'z'}.get(c.rho)
    c09.VAL['-0.5'] = -0.5
    d.options = choose_config(ch)
    d.family = 'tree'
    return d.finish()


def b_stress(ch):
    d = HDeck('c13 stress')
    d.add_surface(1, 'px', [1.0]); d.add_surface(2, 'px', [1.0]); d.add_surface(3, 'px', [1.001])
    d.add_surface(4, 'py', [1.0]); d.add_surface(5, 'pz', [1.0])
    d.add_surface(12, 'p', [1.0, 0.0, 0.0, 1.0])          # the plane x=1 once more, as a general plane
    d.add_surface(9, 'kx', [0.0, 1.0, 1]); d.add_surface(10, 'kx', [0.0, 1.0, -1])
    d.add_surface(11, 'so', [6.0])
    # quadrics written with a small overall scale factor: coefficients differ only below 1e-6 although the loci
    # (cylinders of radius 3 and 5) are far apart
    d.add_surface(13, 'gq', [1e-8, 1e-8, 0, 0, 0, 0, 0, 0, 0, -9e-8])
    d.add_surface(14, 'gq', [1e-8, 1e-8, 0, 0, 0, 0, 0, 0, 0, -25e-8])
    d.add_surface(15, 'px', [1.0000001])               # 1e-7 away from surfaces 1 and 2
    m7 = refsem.Motion((0, 0, 0), refsem.rotation([1, 0, 0], 30.0).T)
    m8 = refsem.Motion((0, 0, 0), refsem.rotation([0, 1, 0], 30.0).T)
    tor = refsem.mcnp_surface('tz', [0.0, 0.0, 0.0, 3.0, 1.0, 1.0])
    d.refsurfs[6] = tor.moved(m7); d.surfcards[6] = '7 tz 0 0 0 3 1 1'
    d.refsurfs[8] = tor.moved(m8); d.surfcards[8] = '8 tz 0 0 0 3 1 1'
    d.trcards[7] = (m7, False); d.trcards[8] = (m8, False)
    regions = {
        'R1': ('*', ('*', -1, -4), -5), 'R2': ('*', 2, -3), 'R2b': ('*', 12, -3), 'R3': -6, 'R4': -8,
        'R5': -9, 'R6': -10, 'R7': ('*', -2, 4), 'R8': ('*', 1, ('*', -4, 5)),
        # unions with a member that is empty only after de-duplication (gap between two numbers of one plane)
        'R9': (':', ('*', -1, ('*', -4, 5)), ('*', 2, -12)),
        'R10': (':', ('*', 12, -1), (':', ('*', 1, ('*', 4, -5)), ('*', 2, -1))),
        'R11': ('*', 13, -14), 'R12': ('*', -13, 5), 'R13': ('*', 15, ('*', -3, -4)),
    }
    order = ch.choose('regions', [
        ['R1', 'R2', 'R3', 'R4', 'R5', 'R6', 'R7', 'R8'],
        ['R2', 'R1', 'R7', 'R8'],
        ['R3', 'R4', 'R1'],
        ['R5', 'R6', 'R2b', 'R2'],
        ['R6', 'R5', 'R4', 'R3', 'R8', 'R7', 'R2b', 'R1'],
        ['R2b', 'R7', 'R1', 'R5'],
        ['R9', 'R10', 'R3'],
        ['R10', 'R9', 'R7', 'R5'],
        ['R11', 'R12', 'R1'],
        ['R12', 'R13', 'R11', 'R2'],
    ])
    prev = []
    mats = [(1, '-2.7'), (2, '-1.0'), (0, None), (1, '-2.70')]
    for k, name in enumerate(order):
        e = ('*', regions[name], -11)
        for p in prev:
            e = ('*', e, ('^', p))
        num = 101 + k
        mat, rho = mats[k % 4]
        d.add_cell(HCell(num, e, mat=mat, rho=rho))
        prev.append(num)
    e = -11
    for p in prev:
        e = ('*', e, ('^', p))
    d.add_cell(HCell(190, e, mat=2, rho='-1.00'))
    d.add_cell(HCell(199, 11, imp=0))
    d.mats = {1: '13027 1', 2: '26056 1'}
    d.rho_cls = {}
    for c in d.hcells:
        d.rho_cls[c.num] = {'-2.7': 'a', '-2.70': 'a', '-1.0': 'b', '-1.00': 'b'}.get(c.rho)
    d.options = choose_config(ch)
    d.family = 'stress'
    return d.finish()


def b_lattice(ch):
    """C06 lattice decks (shape choices deviation-bounded) x all configurations"""
    dims = ch.choose('dims', [2, 1])
    mode = ch.choose('array-mode', ['rot', 'single'])
    d = c06.make_deck(ch, dims, False, False, mode)
    d.options = list(d.options) + choose_config(ch)
    d.family = 'lattice'
    return d


def b_deep(ch):
    d = c05.build_deep(ch, with_options=False)
    d.rho_cls = {}
    for c in d.hcells:
        d.rho_cls[c.num] = {'-2.7': 'a', '-1.0': 'b', '-0.5': 'z'}.get(c.rho)
    c09.VAL['-0.5'] = -0.5
    d.options = choose_config(ch)
    d.family = 'tree'
    return d.finish()


def scenarios(tier):
    q = tier == 'quick'
    return [
        Scn('deep', b_deep, None, None, '4 ... 16 levels of nested universes x all 56 configurations'),
        Scn('lattice', b_lattice, 1 if q else 2, 2, 'C06 lattices (deck choices deviation-bounded) x all 56 configurations'),
        Scn('tree', b_tree, 2 if q else 3, 3, 'C05 trees (deck choices deviation-bounded) x all 56 configurations'),
        Scn('stress', b_stress, None, None, 'surface-equality stress decks x all 56 configurations'),
    ]


LAT = geomdecide.lattice_points(-7.0, 7.0, 15)


def stress_check(st, r, t4):
    """ownership + composition for the stress decks (curved surfaces: witnesses + lattice)"""
    P, info = oracle.probe_points(t4, st.all_ref_planes(), curved=True, lattice=LAT)
    clear = np.ones(len(P), bool)
    for s in st.refsurfs.values():
        for f, d in s.comps:
            v = f(P)
            clear &= np.abs(v) > 1e-7 * max(1.0, np.abs(v).max())
    # the slab between x=1 and x=1.001 is thinner than the lattice: add points inside it
    extra = np.array([[1.0005, y, z] for y in (-3.0, 0.3, 2.0) for z in (-2.0, 0.4, 3.0)])
    P = np.vstack([P[clear], extra])
    chains, problems = st.locate(P)
    if problems:
        raise RuntimeError('stress deck is not a partition: %s' % problems[:2])
    expected = np.empty(len(P), object)
    for i, chn in enumerate(chains):
        expected[i] = None if (chn is None or st.cell(chn[0]).imp == 0) else ('cell', chn[0])
    bad = oracle.compare_owner(t4, P, expected, label_of=lambda v: hier.t4_label(t4, v))
    return bad, len(P)


def dedup_sound(st, t4):
    """Compare with the --skip-deduplication file of the same configuration."""
    if '--skip-deduplication' in st.options:
        return [], 0
    r2 = env.run(st.deck_text, list(st.options) + ['--skip-deduplication'])
    if not r2.ok:
        return ['the --skip-deduplication run failed: ' + r2.brief()], 0
    t4s = t4read.parse(r2.t4)
    bad = []
    n = 0
    cache = {}

    def same(sa, sb):
        key = (sa, sb)
        if key not in cache:
            fa, da = oracle.t4_surface_fn(t4s, sa)
            fb, db = oracle.t4_surface_fn(t4, sb)
            lam = geomdecide.identify(fa, fb, max(da, db))
            cache[key] = lam is not None and lam > 0
        return cache[key]
    for v, dv in t4s.vols.items():
        if v not in t4.vols:
            # a volume may disappear (patently empty after merging) only if it is fictive / unused
            continue
        for side in ('plus', 'minus'):
            for sa in dv[side]:
                n += 1
                if sa in t4.vols[v][side] and same(sa, sa):
                    continue
                if not any(same(sa, sb) for sb in t4.vols[v][side]):
                    bad.append('VOLU %s %s SURF %s of the un-deduplicated file has no identical surface '
                               'in the de-duplicated file' % (v, side.upper(), sa))
    return bad, n


def check_state(scn, st):
    r = env.run(st.deck_text, st.options)
    if not r.ok:
        return verdict(False, st, cls={'kind': 'exception', 'exc': r.exc_type},
                       msg='conversion failed: %s\n%s\n%s' % (r.brief(), st.options, st.deck_text),
                       out='err:' + r.exc_type)
    t4 = t4read.parse(r.t4)
    cls, msg = oracle.structural_cls(t4, st.options)
    if cls:
        return verdict(False, st, cls=cls, msg=msg + '\n' + st.deck_text + r.body[:1500], out=sha(r.body))
    stats = {'configs': {' '.join(st.options)}}
    if st.family == 'lattice':
        v = c06.check_state('shapes', st, result=r)
        if not v['ok']:
            v['cls'] = dict(v['cls'] or {}, prop='lattice-location', options=' '.join(st.options))
            return v
        stats['witness_points'] = v['stats'].get('witness_points', 0)
    elif st.family == 'tree':
        v = c05.check_state('trees', st, result=r)
        if not v['ok']:
            v['cls'] = dict(v['cls'] or {}, prop='provenance')
            return v
        v2 = c09.check_state('tree', st, result=r)
        if not v2['ok']:
            v2['cls'] = dict(v2['cls'] or {}, prop='composition')
            return v2
        stats['witness_points'] = v['stats'].get('witness_points', 0)
    else:
        bad, npts = stress_check(st, r, t4)
        stats['witness_points'] = npts
        if bad:
            return verdict(False, st, cls={'kind': 'location', 'family': 'stress',
                                           'dedup': '--skip-deduplication' not in st.options},
                           msg='%s\n%s\n%s\n%s' % ('\n'.join(bad[:6]), st.options, st.deck_text, r.body[:2500]),
                           out=sha(r.body), stats=stats)
        v2 = c09.check_state('stress', st, result=r)
        if not v2['ok']:
            return v2
    bad, n = dedup_sound(st, t4)
    stats['dedup_surface_uses_checked'] = n
    if bad:
        return verdict(False, st, cls={'kind': 'dedup-merge'},
                       msg='%s\n%s\n%s' % ('\n'.join(bad[:6]), st.options, st.deck_text), out=sha(r.body),
                       stats=stats)
    return verdict(True, st, out=sha(r.body), stats=stats)


def canaries():
    return []


def finish(agg, tier):
    if len(agg['stats'].get('configs', ())) < 56:
        raise Vacuous('only %d configurations exercised' % len(agg['stats'].get('configs', ())))
    return {'configurations': len(agg['stats']['configs'])}
