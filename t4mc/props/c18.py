"""C18 - conversion is deterministic and leaves no state between runs.

E2 + process enumeration:
 (1) all histories of length <= depth over an alphabet of colliding (deck, options) items, each history in
     one fresh interpreter; after every step the written bytes must equal the golden bytes of that item
     (fresh process), and a fingerprint of the interpreter-global state of the MIP / t4_geom_convert
     modules is taken;
 (2) every item in a fresh process under PYTHONHASHSEED in a range of seeds;
 (3) bytes, mtime of the input file and the directory listing before/after every run.
"""
import hashlib
import itertools
import json
import os
import subprocess
import sys
import time

ID = 'C18'
LEVEL = 'model_checking'
RULE = ('explicit enumeration of ALL histories of length <= depth over 17 (deck, options) items chosen to collide (quick tier: '
        'length 3 over the nine items built to collide in process state, length 2 for pairs involving the six others; '
        'thorough tier: length 4 over the nine, length 3 over all; only maximal histories are run since every step is compared) '
        '(identical cell / surface numbers with different geometry, universe and lattice decks, a deck that '
        'fails midway, the same deck under other options); each history runs in one fresh interpreter and every '
        'step is compared byte-for-byte (header removed) with the golden output of the item from a fresh '
        'process; state = fingerprint of the module-global state of MIP.* / t4_geom_convert.* (module '
        'attributes, class attributes, function defaults and closures, recursively); every item is also '
        'converted in fresh processes under a range of PYTHONHASHSEED values; input bytes, mtime and directory '
        'listing are compared before/after every run; non-trivial = history of length >= 2 or seed != golden '
        'seed; distinct = history / (item, seed)')
ASSUMPTIONS = ['the header (three comment lines with version and command-line echo) is excluded from the comparison',
               '--cache (debug feature that writes next to the input by design) is not part of the alphabet']

VERIF = os.path.dirname(os.path.dirname(os.path.dirname(os.path.abspath(__file__))))

ITEMS = {}
ITEMS['a'] = ("""deck a
1 1 -2.7 -1 2 imp:n=1
2 0 (1:-2) -3 imp:n=1
3 0 3 imp:n=0

1 px 5
2 px -5
3 so 20

m1 13027 1
""", [])
ITEMS['b'] = ("""deck b: same numbers, other geometry
1 1 -1.0 -1 -2 imp:n=1
2 0 (1:2) -3 imp:n=1
3 0 3 imp:n=0

1 cz 5
2 pz 2
3 so 30

m1 1001 2 8016 1
""", [])
ITEMS['c'] = ("""deck c: universes
10 0 1 -2 3 -4 fill=1 imp:n=1
11 0 5 -6 3 -4 fill=1 (7 0 0 0 1 0 -1 0 0 0 0 1) imp:n=1
19 0 (-1:2:-3:4) (-5:6:-3:4) -9 imp:n=1
99 0 9 imp:n=0
31 1 -2.7 -21 u=1 imp:n=1
32 2 -7.8 21 -22 u=1 imp:n=1
33 0 21 22 u=1 imp:n=1

1 px -4
2 px 4
3 py -4
4 py 4
5 px 5
6 px 13
9 so 40
21 px 0.5
22 p 1 1 0 0.25

m1 13027 1
m2 26056 1
""", [])
ITEMS['d'] = ("""deck d: lattice
1 0 -1 fill=2 imp:n=1
2 0 1 imp:n=0
20 0 -11 12 -13 14 lat=1 u=2 fill=3 imp:n=1
31 1 -2.7 -3 u=3 imp:n=1
32 0 3 u=3 imp:n=1

1 so 9
3 s 0.2 0.1 0 0.5
11 px 1
12 px -1
13 py 1
14 py -1

m1 13027 1
""", ['--lattice', '20,-1:1,-1:1'])
ITEMS['e'] = ("""deck e: fails midway (facet 7 of a box)
1 0 -1 imp:n=1
2 0 1 -2.7 imp:n=1
3 0 2 imp:n=0

1 so 3
2 rpp -9 9 -9 9 -9 9

""", [])
ITEMS['f'] = (ITEMS['c'][0], ['--always-inline-filling', '--max-inline-score', '0'])
ITEMS['g'] = ("""deck g: trcl, cones, macrobody, hash-ordered things
1 1 -2.7 -1 trcl=(1 2 3) imp:n=1
2 2 -1.0 -2 #1 imp:n=1
3 0 -3 4 #1 #2 imp:n=1
4 3 -7.8 -5 #1 #2 #3 imp:n=1
5 0 #1 #2 #3 #4 -9 imp:n=1
6 0 9 imp:n=0

1 rcc 0 0 0 0 0 4 1.5
2 kz -6 0.5 1
3 7 rpp -8 -6 -1 1 -1 1
4 tz 0 0 0 12 1 1
5 box 6 6 6 1 0 0 0 2 0 0 0 3
9 so 50

tr7 0 0 0 0 1 0 -1 0 0 0 0 1
m1 13027 1
m2 1001 2 8016 1
m3 26056 0.9 26054 0.1
""", [])
ITEMS['h'] = ("""deck h: like but, flags
1 1 -2.7 -1 imp:n=1
2 like 1 but trcl=(5 0 0) rho=-1.35
3 0 -2 #1 #2 imp:n=1
4 0 2 imp:n=0

1 so 2
*2 so 15

m1 13027 1
""", ['--skip-deduplication'])
ITEMS['i'] = ("""deck i: several implicit surfaces 1000*cell+surf whose conversions allocate auxiliary ids
5 0 -1 -2 trcl=(1 0 0) imp:n=1
6 0 -3 4 trcl=(0 2 0 0 1 0 -1 0 0 0 0 1) imp:n=1
12 0 -4 trcl=(0 0 -3) imp:n=1
7 0 (5001:5002) (6003:-6004) 12004 -9 imp:n=1
8 0 9 imp:n=0

1 kz -2 0.5 1
2 rcc 0 0 0 0 0 3 1
3 kx 4 0.25 -1
4 so 0.5
9 so 30

""", [])
ITEMS['j'] = ("""deck j: every kind of cell parameter, several particle types, keywords that are prefixes of one another
1 1 -2.7 -1 imp:n=1 imp:p=2 unc:n=1 vol=4.2
2 2 -7.8 1 -2 imp:n,p=1 nonu=1 tmp=2.53e-8 pwt=1
3 1 -2.70 2 -3 u=0 imp:n=1 ext:n=0 fcl:n=0 elpt:n=0.1
4 3 0.05 3 -4 imp:e=1 imp:n=0 wwn1:n=0.5 dxc1:n=1 pd1=0.5
5 like 4 but mat=2 rho=-7.80 trcl=(20 0 0) cosy=1 bflcl=0
6 0 4 imp:n=0 imp:p=0 imp:e=0

1 so 1
2 so 2
3 so 3
4 so 4

m1 13027 1
m2 26056 0.9 26054 0.1
m3 1001 2 8016 1
mode n p e
""", [])
ITEMS['k'] = ("""deck k: two --lattice options for one cell (the last one counts), one for a LIKE copy
1 0 -1 fill=2 imp:n=1
5 0 -5 fill=4 imp:n=1
2 0 1 5 imp:n=0
20 0 -11 12 -13 14 lat=1 u=2 fill=3 imp:n=1
21 like 20 but u=4
31 1 -2.7 -3 u=3 imp:n=1
32 0 3 u=3 imp:n=1

1 so 9
5 s 30 0 0 9
3 px 0.2
11 px 1
12 px -1
13 py 1
14 py -1

m1 13027 1
""", ['--lattice', '20,0:1,0:0', '--lattice', '21,-1:0,0:1', '--lattice', '20,-1:1,0:0'])
ITEMS['l'] = ("""deck l: coincident surfaces with different boundary flags, flagged surfaces in a universe used twice
1 0 1 -2 3 -4 fill=1 imp:n=1
2 0 5 -6 3 -4 fill=1 (12 0 0) imp:n=1
3 0 -9 (-1:2:-3:4) (-5:7:-3:4) imp:n=1
4 0 9 imp:n=0
11 1 -2.7 -21 u=1 imp:n=1
12 0 21 -22 u=1 imp:n=1
13 0 22 u=1 imp:n=1

*1 px -5
+5 px 7
*2 px 5
+8 px 5
*6 px 17
+7 px 17
3 py -5
+4 py 5
*9 so 60
*21 pz 0
+22 pz 0.5

m1 13027 1
""", [])
ITEMS['m'] = ("""deck m: materials defined in descending order, one cell uses a material that has no card
1 2 -7.8 -1 imp:n=1
2 1 -2.7 1 -2 imp:n=1
3 5 -1.0 2 -3 imp:n=1
4 0 3 imp:n=0

1 so 1
2 so 2
3 so 3

m2 26056 1
m1 13027 1
""", [])
ITEMS['n'] = ("""deck n: the same material numbers as deck m with other contents, in ascending order
1 1 -1.0 -1 imp:n=1
2 2 -11.3 1 -2 imp:n=1
3 5 -19.0 2 -3 imp:n=1
4 0 3 imp:n=0

1 so 1
2 so 2
3 so 3

m1 1001 2 8016 1
m2 82208 1
m5 92238 1
""", [])
ITEMS['o'] = ("""deck o: fails while its filled cells (numbered like those of decks c and k) are being developed
1 0 -1 fill=1 (1 0 0) imp:n=1
10 0 1 -2 fill=1 (0 1 0) imp:n=1
11 0 2 -3 fill=1 (0 0 1) imp:n=1
4 0 3 imp:n=0
21 1 -2.7 -5 u=1 imp:n=1
22 0 5 -77 u=1 imp:n=1
23 0 77 u=1 imp:n=1

1 so 2
2 so 4
3 so 6
5 px 0

m1 13027 1
""", [])
_SHARED = """deck p: one universe fills three containers without transformation, nothing is inlined (nodes with several cell references)
1 0 -1 4 -5 -3 fill=5 imp:n=1
2 0 -2 4 -5 -3 fill=5 imp:n=1
3 0 -6 4 -5 -3 fill=5 imp:n=1
11 1 -2.7 -10 11 u=5 imp:n=1
12 2 -1.0 -10 -11 u=5 imp:n=1
13 0 10 -12 u=5 fill=7 imp:n=1
14 0 12 u=5 imp:n=1
15 1 -2.7 -13 14 u=7 imp:n=1
16 0 13 14 u=7 imp:n=1
17 2 -1.0 -14 u=7 imp:n=1
20 0 #1 #2 #3 -3 imp:n=1
21 0 3 imp:n=0

1 s -20 0 0 8
2 s 20 0 0 8
3 so 60
4 pz -5
5 pz 5
6 s 0 20 0 8
10 cx 3
11 px 0
12 cx 5
13 py 1
14 pz 0

m1 13027 1
m2 1001 2 8016 1
"""
ITEMS['p'] = (_SHARED, [])
ITEMS['q'] = (_SHARED.replace('deck p', 'deck q'), ['--max-inline-score', '0'])
NAMES = sorted(ITEMS)

WORKER = r'''
import sys, os, json, hashlib
sys.path.insert(0, %(verif)r)
spec = json.loads(sys.argv[1])
from t4mc import env
from t4mc.props import c18
env.install()
import t4_geom_convert.main
out = []
fp0 = c18.fingerprint()
mods0 = set(k.rsplit('.', 1)[0] for k in fp0) | set(sys.modules)
d = env.scratch_dir()
for name in spec['history']:
    deck, opts = c18.ITEMS[name]
    ipath = os.path.join(d, 'deck.imcnp')
    before = sorted(os.listdir(d))
    r = env.run(deck, opts, keep=True)
    after = sorted(os.listdir(d))
    st = os.stat(ipath)
    with open(ipath, 'rb') as f:
        same = f.read() == deck.encode()
    extra = [x for x in after if x not in ('deck.imcnp', 'deck.t4')]
    fp = c18.fingerprint()
    # attributes of modules imported lazily during the run are not a change of state
    changed = sorted(k for k in set(fp) | set(fp0) if fp.get(k) != fp0.get(k)
                     and (k in fp0 or any(k.startswith(m + '.') and m in mods0 for m in
                                          [k.rsplit('.', n)[0] for n in (1, 2, 3)])))
    fp = {k: v for k, v in fp.items() if k in fp0 or k in changed}
    out.append(dict(item=name, ok=r.ok, body=(hashlib.sha1(r.body.encode()).hexdigest() if r.ok else None),
                    err=(None if r.ok else '%%s: %%s' %% (r.exc_type, r.exc_msg)),
                    input_same=bool(same and r.input_unchanged), extra_files=extra,
                    fp=hashlib.sha1(json.dumps(fp, sort_keys=True).encode()).hexdigest()[:16],
                    fp_changed=changed[:12]))
    for x in ('deck.imcnp', 'deck.t4'):
        try:
            os.remove(os.path.join(d, x))
        except OSError:
            pass
print('C18RESULT' + json.dumps(dict(fp0=hashlib.sha1(json.dumps(fp0, sort_keys=True).encode()).hexdigest()[:16],
                                    steps=out)))
'''


def fingerprint():
    """Fingerprint of the interpreter-global state of the converter's modules:
    path -> short hash of a canonical rendering of the value."""
    import types
    import re as _re
    fp = {}
    seen = set()

    def render(v, depth=0):
        if depth > 6:
            return '<deep>'
        if v is None or isinstance(v, (bool, int, float, str, bytes)):
            return repr(v)
        if isinstance(v, (list, tuple)):
            return type(v).__name__ + '[' + ','.join(render(x, depth + 1) for x in v) + ']'
        if isinstance(v, (set, frozenset)):
            return 'set{' + ','.join(sorted(render(x, depth + 1) for x in v)) + '}'
        if isinstance(v, dict):
            return 'dict{' + ','.join(sorted('%s:%s' % (render(k, depth + 1), render(x, depth + 1))
                                              for k, x in v.items())) + '}'
        if isinstance(v, _re.Pattern):
            return 're:' + v.pattern
        if isinstance(v, types.ModuleType):
            return 'module:' + v.__name__
        if isinstance(v, (types.FunctionType, types.BuiltinFunctionType, type, types.MethodType)):
            return 'obj:' + getattr(v, '__qualname__', repr(type(v)))
        if hasattr(v, '__dict__') and depth < 4:
            return type(v).__name__ + render(vars(v), depth + 1)
        return 'inst:' + type(v).__name__

    def add(path, v):
        fp[path] = hashlib.sha1(render(v).encode()).hexdigest()[:12]

    for mname, mod in sorted(sys.modules.items()):
        if mod is None or not (mname == 'MIP' or mname.startswith('MIP.') or mname == 't4_geom_convert'
                               or mname.startswith('t4_geom_convert.')):
            continue
        for k, v in sorted(vars(mod).items()):
            if k in ('__warningregistry__', '__builtins__', '__cached__', '__loader__', '__spec__'):
                continue
            path = '%s.%s' % (mname, k)
            if isinstance(v, types.ModuleType):
                continue
            if isinstance(v, type) and v.__module__ == mname:
                for ck, cv in sorted(vars(v).items()):
                    if ck.startswith('__') and ck not in ('__defaults__',):
                        continue
                    f = cv.__func__ if isinstance(cv, (staticmethod, classmethod)) else cv
                    if isinstance(f, types.FunctionType):
                        add('%s.%s.__defaults__' % (path, ck), (f.__defaults__, f.__kwdefaults__))
                    else:
                        add('%s.%s' % (path, ck), cv)
            elif isinstance(v, types.FunctionType) and v.__module__ == mname:
                add(path + '.__defaults__', (v.__defaults__, v.__kwdefaults__))
                if v.__closure__:
                    add(path + '.__closure__', [c.cell_contents for c in v.__closure__])
            elif type(v).__name__ == 'ShimParser':
                continue            # the harness's own parser object (stands in for the TatSu runtime)
            else:
                add(path, v)
    return fp


def run_worker(history, hashseed):
    envv = dict(os.environ, PYTHONHASHSEED=str(hashseed), PYTHONDONTWRITEBYTECODE='1')
    code = WORKER % dict(verif=VERIF)
    p = subprocess.run([sys.executable, '-c', code, json.dumps(dict(history=list(history)))],
                       capture_output=True, text=True, env=envv, cwd=VERIF)
    for line in p.stdout.splitlines():
        if line.startswith('C18RESULT'):
            return json.loads(line[9:])
    raise RuntimeError('worker failed for history %s seed %s:\n%s\n%s'
                       % (history, hashseed, p.stdout[-1500:], p.stderr[-1500:]))


def _job(args):
    history, seed = args
    return history, seed, run_worker(history, seed)


def custom_main(tier, seed, runner):
    from concurrent.futures import ThreadPoolExecutor
    t0 = time.time()
    from .. import env
    env.install()
    env.scratch_base()
    depth = 3 if tier == 'quick' else 4
    nseeds = 16 if tier == 'quick' else 128
    seeds = [(seed * nseeds + k) % 4294967295 for k in range(nseeds)]
    if 0 not in seeds:
        seeds[0] = 0
    jobs = int(os.environ.get('T4MC_JOBS', '16'))
    findings = runner.load_findings()
    golden = {}
    bad = []      # (cls, msg, replay dict)

    with ThreadPoolExecutor(jobs) as ex:
        # golden outputs: fresh process, hash seed 0, history of length 1
        for (hist, sd, res) in ex.map(_job, [((n,), 0) for n in NAMES]):
            golden[hist[0]] = res['steps'][0]
        # an item that does not convert (or item e converting) is not a matter of determinism: the comparison
        # below still requires every run of the item to end the same way
        not_converting = [n for n in NAMES if n != 'e' and not golden[n]['ok']]
        if not_converting:
            print('NOTE: items %s of the alphabet do not convert on this tree (%s)'
                  % (not_converting, golden[not_converting[0]]['err']))
        # (1) histories
        if tier == 'quick':
            # every step of a history is compared, so only maximal histories are run: length 3 over the items
            # built to collide in process state (a - i), length 2 for the pairs that involve a later item
            core = [n for n in NAMES if n <= 'i']
            histories = [h for h in itertools.product(core, repeat=depth)]
            histories += [h for h in itertools.product(NAMES, repeat=2) if not (h[0] in core and h[1] in core)]
        else:
            # thorough tier: length 4 over the nine core items, length 3 over all items
            core = [n for n in NAMES if n <= 'i']
            histories = [h for h in itertools.product(core, repeat=depth)]
            histories += [h for h in itertools.product(NAMES, repeat=depth - 1) if not all(x in core for x in h)]
        # items p, q hold nodes with several cell references: the order in which such references are taken must
        # not depend on where earlier conversions left the allocator - converted twice more after every item
        histories += [(n, x, x) for n in NAMES for x in ('p', 'q')]
        fps = set()
        closed = True
        changed_paths = set()
        steps_run = 0
        nhist = 0
        for (hist, sd, res) in ex.map(_job, [(h, 0) for h in histories]):
            nhist += 1
            fps.add(res['fp0'])
            for i, st in enumerate(res['steps']):
                steps_run += 1
                g = golden[st['item']]
                fps.add(st['fp'])
                if st['fp'] != res['fp0']:
                    closed = False
                    changed_paths.update(st['fp_changed'])
                if (st['ok'], st['body'], st['err']) != (g['ok'], g['body'], g['err']):
                    bad.append(({'kind': 'history-dependent', 'item': st['item'],
                                 'after': ','.join(hist[:i]) or '-'},
                                'item %s converted after %s differs from its golden output (fresh process)\n'
                                'golden: ok=%s body=%s err=%s\nhere:   ok=%s body=%s err=%s'
                                % (st['item'], list(hist[:i]), g['ok'], g['body'], g['err'], st['ok'], st['body'],
                                   st['err']), dict(history=list(hist), hashseed=0)))
                if not st['input_same']:
                    bad.append(({'kind': 'input-modified', 'item': st['item']},
                                'the input file of item %s was modified' % st['item'],
                                dict(history=list(hist), hashseed=0)))
                if st['extra_files']:
                    bad.append(({'kind': 'extra-files', 'item': st['item']},
                                'files %s appeared next to the input' % st['extra_files'],
                                dict(history=list(hist), hashseed=0)))
        # (2) hash seeds
        nseedruns = 0
        for (hist, sd, res) in ex.map(_job, [((n,), s) for n in NAMES for s in seeds if s != 0]):
            nseedruns += 1
            st = res['steps'][0]
            g = golden[st['item']]
            if (st['ok'], st['body'], st['err']) != (g['ok'], g['body'], g['err']):
                bad.append(({'kind': 'hashseed-dependent', 'item': st['item']},
                            'item %s under PYTHONHASHSEED=%s differs from PYTHONHASHSEED=0\n%s\n%s'
                            % (st['item'], sd, g, st), dict(history=list(hist), hashseed=sd)))
    # classify
    classes = {}
    for cls, msg, rep in bad:
        k = json.dumps(cls, sort_keys=True)
        if k not in classes:
            classes[k] = (cls, msg, rep, 0)
        c = classes[k]
        classes[k] = (c[0], c[1], c[2], c[3] + 1)
    rc = 0
    nviol = 0
    known = 0
    for k, (cls, msg, rep, cnt) in sorted(classes.items()):
        f = runner.match_finding(findings, ID, cls)
        if f is not None:
            print('KNOWN-FINDING: property=%s %s [%d]' % (ID, f['what'], cnt))
            known += cnt
            continue
        # reproduce once more before reporting
        again = run_worker(rep['history'], rep['hashseed'])
        path = os.path.join(os.environ.get('T4MC_REPLAY_DIR') or os.path.join(VERIF, 'replays'),
                            'C18-%s.json' % hashlib.sha1(k.encode()).hexdigest()[:16])
        os.makedirs(os.path.dirname(path), exist_ok=True)
        with open(path, 'w') as fh:
            json.dump(dict(property=ID, classification=cls, message=msg, history=rep['history'],
                           hashseed=rep['hashseed'], golden={n: golden[n] for n in rep['history']},
                           rerun=again), fh, indent=1)
        print('VIOLATION property=%s replay=%s' % (ID, path))
        print('  class=%s states=%d\n  %s' % (k, cnt, msg.replace('\n', '\n  ')))
        nviol += 1
        rc = 1
    cov = dict(states=len(fps), transitions=steps_run + nseedruns,
               traces_validated_against_impl=nhist + nseedruns + len(NAMES),
               evaluations=steps_run + nseedruns + len(NAMES),
               distinct_nontrivial=len([h for h in histories if len(h) >= 2]) + nseedruns,
               rule=RULE, exhaustive=True, history_depth=depth, histories=nhist, alphabet=len(NAMES),
               hash_seeds=seeds[:8] + (['...'] if len(seeds) > 8 else []), n_hash_seeds=len(seeds),
               global_state_fingerprints=len(fps), global_state_closed=closed,
               global_state_changed_paths=sorted(changed_paths)[:20],
               closure_argument=('every transition from the initial state returns to the initial fingerprint: the '
                                 'reachable set of interpreter-global states is {initial}, so the result extends '
                                 'to histories of any length' if closed else
                                 'the fingerprint changes along some histories (paths listed); the result is '
                                 'claimed for the explored depth only'),
               samples=[dict(history=list(h)) for h in histories[:3] + histories[-3:]]
               + [dict(item=n, options=ITEMS[n][1], deck=ITEMS[n][0][:400]) for n in NAMES[:3]],
               distinct_outputs=len(set((g['body'], g['err']) for g in golden.values())),
               violation_classes=len(classes), known_finding_states=known)
    ev = dict(property_id=ID, tier=tier, seed=seed, level=LEVEL, coverage=cov, assumptions=ASSUMPTIONS,
              wall_s=round(time.time() - t0, 2), violations=nviol)
    evdir = os.environ.get('T4MC_EVIDENCE_DIR') or os.path.join(VERIF, 'evidence')
    os.makedirs(evdir, exist_ok=True)
    with open(os.path.join(evdir, ID + '.json'), 'w') as f:
        json.dump(ev, f, indent=1)
    print('C18 tier=%s histories=%d steps=%d seed-runs=%d fingerprints=%d closed=%s violations=%d known=%d '
          'wall=%.1fs' % (tier, nhist, steps_run, nseedruns, len(fps), closed, nviol, known, time.time() - t0))
    return rc


def replay(path):
    with open(path) as f:
        r = json.load(f)
    res = run_worker(r['history'], r['hashseed'])
    gold = {n: run_worker((n,), 0)['steps'][0] for n in set(r['history'])}
    ok = True
    for st in res['steps']:
        g = gold[st['item']]
        same = (st['ok'], st['body'], st['err']) == (g['ok'], g['body'], g['err'])
        print('item %s: %s' % (st['item'], 'same as golden' if same else 'DIFFERS from golden: %s vs %s' % (st, g)))
        ok &= same
    return 0 if ok else 1
