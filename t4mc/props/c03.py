"""C03 - macrobodies: interior, exterior and numbered facets."""
import itertools
import math

import numpy as np

from .. import env, t4read, oracle, geomdecide, refsem
from ..deck import Deck, fmt
from ..runner import Scn, verdict, sha, Vacuous

ID = 'C03'
DECORATE = True
LEVEL = 'model_checking'
RULE = ('E1 enumeration of macrobody cards (kind x parameter/orientation/handedness alphabet); probe '
        'cells -b, +b and +b.k / -b.k for every facet k; reference solid from its metric definition, '
        'facets in the manual numbering with outward normal computed from the solid; facet surfaces '
        'identified as polynomials, all-plane bodies compared at complete arrangement witnesses, '
        'curved ones on witnesses + lattice; non-trivial = interior and exterior both realised; '
        'distinct = distinct card text; every body also 100 times smaller and ~15 cm from the origin (judged in '
        'the coordinates of the unit-size body: output surfaces pulled back exactly)')
ASSUMPTIONS = [
    'macrobody definitions and facet numbering of the MCNP manual (BOX RPP SPH RCC RHP/HEX REC TRC ELL WED ARB)',
    'ELL with positive last entry follows the empirical MCNP rule documented in MacroBodies.ell',
    '9-entry RHP/HEX: the implied vectors s and t are r turned by +60 and +120 degrees about h (right-hand rule), '
    'so that facets 3-6 follow counter-clockwise seen from the tip of h',
]

LAT = geomdecide.lattice_points(-7.0, 7.0, 11)


class Body:
    """inside(P) -> bool array; facets: list of (f, degree), outward positive."""

    def __init__(self, card, inside, facets, probe=None):
        self.card, self.inside, self.facets = card, inside, facets
        self.probe = list(range(1, len(facets) + 1)) if probe is None else probe


def lin(n, p0):
    n = np.asarray(n, float); p0 = np.asarray(p0, float)
    return (lambda P: (P - p0) @ n, 1)


def outward(n, p0, centre):
    n = np.asarray(n, float)
    if (np.asarray(centre, float) - np.asarray(p0, float)) @ n > 0:
        n = -n
    return lin(n, p0)


def nums(*vecs):
    return ' '.join(fmt(float(x)) for v in vecs for x in (v if np.ndim(v) else [v]))


def halfspaces_inside(facets):
    def inside(P):
        r = np.ones(len(P), bool)
        for f, _ in facets:
            r &= f(P) < 0
        return r
    return inside


def body_box(v, a1, a2, a3):
    v, a1, a2, a3 = (np.asarray(t, float) for t in (v, a1, a2, a3))
    c = v + (a1 + a2 + a3) / 2
    facets = [outward(a1, v + a1, c), outward(a1, v, c), outward(a2, v + a2, c), outward(a2, v, c),
              outward(a3, v + a3, c), outward(a3, v, c)]
    return Body('box ' + nums(v, a1, a2, a3), halfspaces_inside(facets), facets)


def body_rpp(b):
    lo, hi = np.array(b[0::2], float), np.array(b[1::2], float)
    facets = []
    for ax in range(3):
        n = np.zeros(3); n[ax] = 1
        facets.append(lin(n, n * hi[ax]))
        facets.append(lin(-n, n * lo[ax]))
    return Body('rpp ' + nums(b), halfspaces_inside(facets), facets)


def body_sph(c, r):
    s = refsem.sphere(c, r)
    return Body('sph ' + nums(c, r), s.neg, s.comps)


def body_rcc(v, h, r):
    v, h = np.asarray(v, float), np.asarray(h, float)
    cyl = refsem.cylinder(v, h, r)
    facets = [cyl.comps[0], lin(h, v + h), lin(-h, v)]
    return Body('rcc ' + nums(v, h, r), halfspaces_inside(facets), facets)


def body_rhp(v, h, r, s=None, t=None):
    v, h, r = (np.asarray(x, float) for x in (v, h, r))
    if s is None:
        R1 = refsem.rotation(h, 60.0); R2 = refsem.rotation(h, 120.0)
        s_, t_ = R1 @ r, R2 @ r
        card = 'rhp ' + nums(v, h, r)
        probe = None
    else:
        s_, t_ = np.asarray(s, float), np.asarray(t, float)
        card = 'rhp ' + nums(v, h, r, s_, t_)
        probe = None
    facets = [lin(r, v + r), lin(-r, v - r), lin(s_, v + s_), lin(-s_, v - s_),
              lin(t_, v + t_), lin(-t_, v - t_), lin(h, v + h), lin(-h, v)]
    return Body(card, halfspaces_inside(facets), facets, probe)


def body_rec(v, h, a, b):
    """b: minor-axis vector (12 entries) or scalar minor radius (10 entries)."""
    v, h, a = (np.asarray(x, float) for x in (v, h, a))
    if np.ndim(b):
        bvec = np.asarray(b, float)
        card = 'rec ' + nums(v, h, a, bvec)
    else:
        u = np.cross(h, a)
        bvec = u / np.linalg.norm(u) * b
        card = 'rec ' + nums(v, h, a, b)
    ua, ub = a / np.linalg.norm(a), bvec / np.linalg.norm(bvec)
    la, lb = np.linalg.norm(a), np.linalg.norm(bvec)

    def ecyl(P):
        d = P - v
        return (d @ ua) ** 2 / la ** 2 + (d @ ub) ** 2 / lb ** 2 - 1.0
    facets = [(ecyl, 2), lin(h, v + h), lin(-h, v)]
    return Body(card, halfspaces_inside(facets), facets)


def body_trc(v, h, r1, r2):
    v, h = np.asarray(v, float), np.asarray(h, float)
    H = np.linalg.norm(h); u = h / H

    def cone(P):
        d = P - v
        a = d @ u
        rho2 = (d * d).sum(1) - a * a
        rad = r1 + (r2 - r1) * a / H
        return rho2 - rad * rad
    facets = [(cone, 2), lin(h, v + h), lin(-h, v)]
    return Body('trc ' + nums(v, h, r1, r2), halfspaces_inside(facets), facets)


def body_ell(v1, v2, rm):
    v1, v2 = np.asarray(v1, float), np.asarray(v2, float)
    if rm < 0:
        c, a, b2 = v1, v2, rm * rm
    else:
        c = (v1 + v2) / 2
        f = np.linalg.norm(v1 - c)
        a = (v1 - c) / f * rm
        b2 = rm ** 2 - (rm - f) ** 2          # empirical MCNP rule (assumption)
    u = a / np.linalg.norm(a); a2 = a @ a

    def ell(P):
        d = P - c
        ax = d @ u
        return ax * ax / a2 + ((d * d).sum(1) - ax * ax) / b2 - 1.0
    return Body('ell ' + nums(v1, v2, rm), lambda P: ell(P) < 0, [(ell, 2)])


def body_wed(v, a, b, h):
    v, a, b, h = (np.asarray(x, float) for x in (v, a, b, h))
    A = np.array([a, b, h]).T
    Ai = np.linalg.inv(A)

    def co(k):
        return lambda P: (P - v) @ Ai[k]
    c0, c1, c2 = co(0), co(1), co(2)
    facets = [(lambda P: c0(P) + c1(P) - 1.0, 1), (lambda P: -c0(P), 1), (lambda P: -c1(P), 1),
              (lambda P: c2(P) - 1.0, 1), (lambda P: -c2(P), 1)]
    return Body('wed ' + nums(v, a, b, h), halfspaces_inside(facets), facets)


def body_arb(verts, facet_ids):
    """verts: list of 3-vectors (<=8); facet_ids: list of tuples of 1-based vertex indices."""
    V = [np.asarray(x, float) for x in verts]
    cen = sum(V) / len(V)
    facets = []
    for ids in facet_ids:
        p = [V[i - 1] for i in ids[:3]]
        n = np.cross(p[1] - p[0], p[2] - p[0])
        facets.append(outward(n / np.linalg.norm(n), p[0], cen))
    pad = V + [np.zeros(3)] * (8 - len(V))
    desc = [''.join(str(i) for i in ids) + '0' * (4 - len(ids)) for ids in facet_ids]
    desc += ['0'] * (6 - len(desc))
    card = 'arb ' + nums(*pad) + ' ' + ' '.join(desc)
    return Body(card, halfspaces_inside(facets), facets)


# ---------------------------------------------------------------------------

ROTS = [np.eye(3), refsem.rotation([1, 2, 3], 35.0), refsem.rotation([0, 0, 1], 90.0),
        refsem.rotation([1, 0, 0], 180.0), refsem.rotation([1, 1, 0], 120.0)]
BASES = [(-1.0, -1.0, -2.0), (0.0, 0.0, 0.0), (0.5, 2.0, -1.0)]


def choose_rot(ch):
    return ch.choose('rot', ROTS)


def edges(ch, lengths=(3.0, 2.0, 4.0)):
    """Orthogonal edge triple: permutation x signs (both handednesses)."""
    perm = ch.choose('perm', list(itertools.permutations(range(3))))
    sg = ch.choose('signs', list(itertools.product((1, -1), repeat=3)))
    E = []
    for i in range(3):
        e = np.zeros(3); e[perm[i]] = sg[i] * lengths[i]
        E.append(e)
    return E


def b_box(ch):
    R = choose_rot(ch); v = np.array(ch.choose('base', BASES))
    a1, a2, a3 = edges(ch)
    return Deck3(body_box(v, R @ a1, R @ a2, R @ a3))


def b_rpp(ch):
    b = [ch.choose('xmin', [-1.0, 0.0]), ch.choose('xmax', [2.0, 0.5]),
         ch.choose('ymin', [-3.0, -0.5]), ch.choose('ymax', [1.0, 4.0]),
         ch.choose('zmin', [0.0, -4.0]), ch.choose('zmax', [4.0, 0.25])]
    return Deck3(body_rpp(b))


def b_sph(ch):
    c = [ch.choose('c%d' % i, [1.0, -2.0, 0.0]) for i in range(3)]
    return Deck3(body_sph(c, ch.choose('r', [2.0, 0.5, 3.25])))


AXDIRS = [(0, 0, 1.0), (0, 0, -1.0), (1.0, 0, 0), (-1.0, 0, 0), (0, 1.0, 0), (0, -1.0, 0),
          (1.0, 2.0, 2.0), (-1.0, 1.0, 0.5),
          # nearly (but not exactly) along a coordinate axis: 0.6 to 2 degrees off
          (1.0, 0.03, 0.0), (-1.0, 0.01, -0.02), (0.02, 1.0, 0.0), (0.0, -0.015, 1.0)]


def b_rcc(ch):
    v = np.array(ch.choose('base', BASES))
    d = np.array(ch.choose('axis', AXDIRS), float)
    h = d / np.linalg.norm(d) * ch.choose('H', [4.0, 1.5])
    return Deck3(body_rcc(v, h, ch.choose('r', [2.0, 0.75])))


def perp_frame(d):
    d = np.asarray(d, float) / np.linalg.norm(d)
    a = np.cross(d, [1, 0, 0]) if abs(d[0]) < 0.9 else np.cross(d, [0, 1, 0])
    a /= np.linalg.norm(a)
    return d, a, np.cross(d, a)


def b_rhp(ch):
    mnem = ch.choose('mnemonic', ['rhp', 'hex'])
    st = _b_rhp(ch)
    st.body.card = mnem + st.body.card[3:]
    st.surfs = ['1 ' + st.body.card]
    return st


def _b_rhp(ch):
    v = np.array(ch.choose('base', BASES))
    d, a, b = perp_frame(ch.choose('axis', AXDIRS))
    h = d * ch.choose('H', [4.0, 1.5])
    phi = math.radians(ch.choose('phi', [0.0, 30.0, 17.0]))
    ap = ch.choose('apothem', [2.0, 1.25])
    r = ap * (math.cos(phi) * a + math.sin(phi) * b)
    form = ch.choose('form', ['9', '15', '15cw', '15irregular'])
    if form == '9':
        return Deck3(body_rhp(v, h, r))
    sgn = -1.0 if form == '15cw' else 1.0
    s = refsem.rotation(d, sgn * 60.0) @ r
    t = refsem.rotation(d, sgn * 120.0) @ r
    if form == '15irregular':
        s = s * 1.3
        t = t * 0.8
    return Deck3(body_rhp(v, h, r, s, t))


def b_rec(ch):
    v = np.array(ch.choose('base', BASES))
    d, a, b = perp_frame(ch.choose('axis', AXDIRS))
    h = d * ch.choose('H', [4.0, 1.5])
    phi = math.radians(ch.choose('phi', [0.0, 40.0]))
    ua = math.cos(phi) * a + math.sin(phi) * b
    ub = np.cross(d, ua)
    la, lb = ch.choose('semi', [(3.0, 1.5), (1.0, 2.5)])
    form = ch.choose('form', ['12', '10', '12neg'])
    if form == '10':
        return Deck3(body_rec(v, h, ua * la, lb))
    if form == '12neg':
        return Deck3(body_rec(v, h, -ua * la, -ub * lb))
    return Deck3(body_rec(v, h, ua * la, ub * lb))


def b_trc(ch):
    v = np.array(ch.choose('base', BASES))
    d = np.array(ch.choose('axis', AXDIRS), float)
    h = d / np.linalg.norm(d) * ch.choose('H', [4.0, 1.5])
    r1, r2 = ch.choose('radii', [(2.0, 1.0), (1.0, 2.5), (3.0, 0.5), (0.5, 1.0)])
    return Deck3(body_trc(v, h, r1, r2))


def b_ell(ch):
    c = np.array(ch.choose('centre', BASES))
    d = np.array(ch.choose('axis', AXDIRS), float); d /= np.linalg.norm(d)
    form = ch.choose('form', ['neg-prolate', 'neg-oblate', 'pos'])
    if form == 'neg-prolate':
        return Deck3(body_ell(c, d * 3.0, -1.5))
    if form == 'neg-oblate':
        return Deck3(body_ell(c, d * 1.5, -3.0))
    f = ch.choose('focal', [2.0, 1.0])
    return Deck3(body_ell(c - d * f, c + d * f, ch.choose('rm', [3.0, 4.5])))


def b_wed(ch):
    R = choose_rot(ch); v = np.array(ch.choose('base', BASES))
    a, b, h = edges(ch)
    return Deck3(body_wed(v, R @ a, R @ b, R @ h))


CUBE = [(0, 0, 0), (2, 0, 0), (2, 3, 0), (0, 3, 0), (0, 0, 4), (2, 0, 4), (2, 3, 4), (0, 3, 4)]
CUBE_F = [(1, 2, 3, 4), (5, 6, 7, 8), (1, 2, 6, 5), (2, 3, 7, 6), (3, 4, 8, 7), (4, 1, 5, 8)]
FRUSTUM = [(-2, -2, 0), (2, -2, 0), (2, 2, 0), (-2, 2, 0), (-1, -1, 3), (1, -1, 3), (1, 1, 3), (-1, 1, 3)]
PRISM = [(0, 0, 0), (3, 0, 0), (0, 2, 0), (0, 0, 4), (3, 0, 4), (0, 2, 4)]
PRISM_F = [(1, 2, 3), (4, 5, 6), (1, 2, 5, 4), (2, 3, 6, 5), (3, 1, 4, 6)]
TETRA = [(0, 0, 0), (3, 0, 0), (0, 2.5, 0), (0.5, 0.5, 4)]
TETRA_F = [(1, 2, 3), (1, 2, 4), (2, 3, 4), (3, 1, 4)]


def b_arb(ch):
    kind = ch.choose('kind', ['cube', 'frustum', 'prism', 'tetra'])
    R = choose_rot(ch); v = np.array(ch.choose('base', BASES))
    if kind in ('cube', 'frustum'):
        V, F = (CUBE if kind == 'cube' else FRUSTUM), CUBE_F
    elif kind == 'prism':
        V, F = PRISM, PRISM_F
    else:
        V, F = TETRA, TETRA_F
    if ch.choose('mirror', [False, True]):
        V = [(-x, y, z) for x, y, z in V]
    rot_f = ch.choose('facet-start', [0, 1, 2])
    F = [tuple(f[(i + rot_f) % len(f)] for i in range(len(f))) for f in F]
    V = [R @ np.array(p, float) + v for p in V]
    return Deck3(body_arb(V, F))


class Deck3(Deck):
    def __init__(self, body):
        super().__init__('c03 ' + body.card.split()[0])
        self.body = body
        self.cells = ['1 0 -1 imp:n=1', '2 0 1 imp:n=1']
        for k in body.probe:
            self.cells.append('%d 0 1.%d imp:n=1' % (10 + k, k))
            self.cells.append('%d 0 -1.%d imp:n=1' % (20 + k, k))
        self.surfs = ['1 ' + body.card]


OFF, SCALE = np.array([13.0, -7.0, 5.0]), 1.0e-2
# per kind: 'p' position (offset + scale), 'v' vector or length (scale), 'i' dimensionless
LAYOUT = {'box': 'ppp' + 'v' * 9, 'sph': 'pppv', 'rcc': 'pppvvvv', 'rhp': 'ppp' + 'v' * 12, 'hex': 'ppp' + 'v' * 12,
          'rec': 'ppp' + 'v' * 9, 'trc': 'pppvvvvv', 'wed': 'ppp' + 'v' * 9, 'arb': 'p' * 24 + 'i' * 6}


def scaled_card(card):
    """the card of the same body 100 times smaller, far from the origin (details of 10-100 micrometres at ~15 cm)"""
    toks = card.split()
    kind, vals = toks[0].lower(), [float(t) for t in toks[1:]]
    if kind == 'rpp':
        out = [OFF[i // 2] + SCALE * v for i, v in enumerate(vals)]
    elif kind == 'ell':
        if vals[6] > 0:      # two foci, major radius
            out = [OFF[i % 3] + SCALE * v for i, v in enumerate(vals[:6])] + [SCALE * vals[6]]
        else:                # centre, major axis vector, -minor radius
            out = [OFF[i] + SCALE * v for i, v in enumerate(vals[:3])] + [SCALE * v for v in vals[3:]]
    else:
        lay = LAYOUT[kind][:len(vals)]
        out = []
        for i, (v, t) in enumerate(zip(vals, lay)):
            out.append(OFF[i % 3] + SCALE * v if t == 'p' else SCALE * v if t == 'v' else v)
    return '%s %s' % (toks[0], ' '.join(repr(float(x)) if not (t == 'i') else str(int(x))
                                       for x, t in zip(out, (LAYOUT.get(kind, 'v' * 99) + 'v' * 99))))


def placed(build):
    def b(ch):
        st = build(ch)
        if ch.choose('placement', ['unit', 'tiny-far']) == 'tiny-far':
            st.frame = (OFF, SCALE)
            st.surfs = ['1 ' + scaled_card(st.body.card)]
        return st
    return b


def scenarios(tier):
    q = tier == 'quick'
    return [Scn(s.name, placed(s.build), s.quick, s.thorough, s.note) for s in _scenarios(tier)]


def _scenarios(tier):
    q = tier == 'quick'
    return [
        Scn('box', b_box, None, None, 'right boxes: 5 rotations x 3 bases x 6 permutations x 8 sign patterns'),
        Scn('rpp', b_rpp, None, None, ''),
        Scn('sph', b_sph, None, None, ''),
        Scn('rcc', b_rcc, None, None, 'axis along +-x, +-y, +-z and oblique'),
        Scn('rhp', b_rhp, None, None, '9 and 15 entries, both rotation senses, irregular'),
        Scn('rec', b_rec, None, None, '10 and 12 entries'),
        Scn('trc', b_trc, None, None, 'r1>r2 and r1<r2'),
        Scn('ell', b_ell, None, None, 'both parameterisations'),
        Scn('wed', b_wed, None, None, 'both handednesses, all orientations'),
        Scn('arb', b_arb, None, None, 'hexahedra, prism (0 entry), tetrahedron'),
    ]


def plane_nd(f):
    z = np.zeros((1, 3))
    d = f(z)[0]
    n = np.array([f(np.eye(3)[i:i + 1])[0] - d for i in range(3)])
    return n, d


def check_state(scn, st, flip=None):
    body = st.body
    r = env.run(st.deck_text, st.options)
    kind = body.card.split()[0]
    if not r.ok:
        return verdict(False, st, cls={'kind': 'exception', 'exc': r.exc_type, 'body': kind},
                       msg='conversion of a valid card failed: %s\n%s' % (r.brief(), body.card),
                       out='err:' + r.exc_type)
    t4 = t4read.parse(r.t4)
    cls, msg = oracle.structural_cls(t4, st.options)
    if cls:
        return verdict(False, st, cls=cls, msg=msg, out=sha(r.body))
    if getattr(st, 'frame', None) is not None:
        # the tiny, far-away copy is judged in the coordinates of the unit-size body
        t4 = t4read.pullback(t4, *st.frame)
        if t4 is None:
            return verdict(True, st, out=sha(r.body), nontrivial=False, stats={'tiny_far_unsupported_kind': 1})
        kind = kind + '@tiny-far'
    matches, unmatched = oracle.identify_surfaces(t4, body.facets)
    if unmatched:
        return verdict(False, st, cls={'kind': 'locus', 'body': kind},
                       msg='SURF %s matches no facet of %s\n%s' % (unmatched, body.card, r.body[:900]),
                       out=sha(r.body))
    allplane = all(d == 1 for _, d in body.facets)
    refpl = [plane_nd(f) for f, d in body.facets if d == 1]
    P, info = oracle.probe_points(t4, refpl, curved=not allplane, lattice=LAT)
    clear = np.ones(len(P), bool)
    for f, d in body.facets:
        v = f(P)
        clear &= np.abs(v) > 1e-7 * max(1.0, np.abs(v).max())
    P = P[clear]
    ins = body.inside(P)
    exp = {1: ins, 2: ~ins}
    for k in body.probe:
        fv = body.facets[k - 1][0](P)
        if flip == k:
            fv = -fv
        exp[10 + k] = fv > 0
        exp[20 + k] = fv < 0
    bad = oracle.compare_cells(t4, P, exp)
    stats = {'probe_points': len(P), 'bodies': {kind.split('@')[0]}, 'complete_witness_states': int(info['complete'])}
    if '@' in kind:
        stats['tiny_far_states'] = 1
    if bad:
        which = sorted(set(b.split(':')[0] for b in bad))
        probes = []
        for w in which:
            n = int(w.split()[1])
            probes.append('-b' if n == 1 else '+b' if n == 2 else 'facet%d' % (n % 10))
        return verdict(False, st, cls={'kind': 'region', 'body': kind, 'probes': ','.join(sorted(set(probes)))},
                       msg='%s\n%s\n%s' % (body.card, '\n'.join(bad[:8]), r.body[:900]),
                       out=sha(r.body), stats=stats)
    return verdict(True, st, out=sha(r.body), nontrivial=bool(ins.any() and (~ins).any()), stats=stats)


def canaries():
    from ..explore import Chooser
    st = b_box(Chooser(()))
    out = [('c03-baseline', check_state('box', st)['ok']),
           ('c03-flipped-facet-detected', not check_state('box', st, flip=3)['ok'])]
    return out


def finish(agg, tier):
    need = {'box', 'rpp', 'sph', 'rcc', 'rhp', 'rec', 'trc', 'ell', 'wed', 'arb'}
    got = set(agg['stats'].get('bodies', set()))
    if not need <= got:
        raise Vacuous('bodies not exercised: %s' % sorted(need - got))
    return {'bodies_exercised': sorted(got)}
