"""C11 - cell expressions denote the Boolean function MCNP assigns to them.

Seam: MIP.geom.parsegeom.get_ast + CellConversion.pot_complement, evaluated
under all 2^n sense assignments; plus the same spelled expressions through the
whole converter (cell-card splitting included) with the C01 point oracle.
"""
import itertools

import numpy as np

from .. import env, t4read, oracle
from ..deck import (Deck, render_expr, holds, choose_tree, shapes, leaves)
from ..runner import Scn, verdict, sha, Vacuous
from . import c01

ID = 'C11'
LEVEL = 'model_checking'
RULE = ('E1 enumeration of expression trees (<=k leaves over signed surface, facet and #n literals, '
        '#( ) at inner nodes) times spelling choices (blanks, blanks around ":", blanks inside '
        'parentheses, redundant parentheses, adjacency ")(", "1(", ")1", "# n", "# (", "#1#2", '
        'explicit "+"); every state is evaluated under all 2^n sense assignments; non-trivial = '
        'expression with at least one operator; distinct = distinct expression text; also: operands under 0 ... 6 directly nested #( )')
ASSUMPTIONS = [
    'MCNP expression rules: blank = intersection binds tighter than ":", #n = complement of cell n, '
    '#( ) = complement of the sub-expression, a.k = facet k of macrobody a',
    'PEG shim replaces the third-party TatSu parser object only (grammar file and semantic actions '
    'are the repository\'s)',
]

SEAM_LITS = [1, -1, 2, -2, 3, ('f', 4, 2), ('f', -4, 2), ('^', 8), ('^', 9)]
VARS = [1, 2, 3, ('f', 4, 2)]
AUX = {8: ('*', 1, (':', -2, ('f', 4, 2))), 9: (':', ('^', 8), ('*', 3, -1))}


# ---------------------------------------------------------------------------
# spelled rendering

def spell(ch, t, label='s', prec=0, cost_free=False):
    """Render tree t; every spelling decision is a (costed) choice point.
    Returns text."""
    n = [0]

    def pick(what, opts):
        n[0] += 1
        return ch.choose('%s.%s%d' % (label, what, n[0]), opts, free=cost_free)

    def paren(s):
        return '(' + pick('po', ['', ' ']) + s + pick('pc', ['', ' ']) + ')'

    def r(t, prec):
        if isinstance(t, (int, np.integer)):
            s = str(int(t))
            if t > 0 and pick('plus', [False, True]):
                s = '+' + s
            if pick('rpl', [False, True]):
                s = paren(s)
            return s
        op = t[0]
        if op == 'f':
            s = '%d.%d' % (t[1], t[2])
            if pick('rpl', [False, True]):
                s = paren(s)
            return s
        if op == '^':
            s = '#' + pick('hs', ['', ' ']) + str(t[1])
            if pick('rpl', [False, True]):
                s = paren(s)
            return s
        if op == '#':
            s = '#' + pick('hs', ['', ' ']) + paren(r(t[1], 0))
            return s
        if op == '*':
            a, b = r(t[1], 2), r(t[2], 3)
            seps = [' ', '  ']
            if a.endswith(')') or b.startswith('(') or b.startswith('#'):
                seps.append('')
            s = a + pick('is', seps) + b
            need = prec > 2
        else:
            a, b = r(t[1], 1), r(t[2], 2)
            s = a + pick('us', [':', ' : ', ': ', ' :']) + b
            need = prec > 1
        if need or pick('rp', [False, True]):
            s = paren(s)
        return s
    return r(t, prec)


# ---------------------------------------------------------------------------
# independent evaluation

def assignments(nvars):
    return np.array(list(itertools.product([False, True], repeat=nvars)))


def ref_truth(t, cells):
    A = assignments(len(VARS))
    idx = {v: i for i, v in enumerate(VARS)}

    def sense(lit):
        return A[:, idx[lit]]
    return holds(t, sense, cells)


def eval_converted(node, cells_parsed=None):
    """Evaluate a tree of the converter's node types on all assignments."""
    A = assignments(len(VARS))
    idx = {1: 0, 2: 1, 3: 2, (4, 2): 3}

    def ev(n):
        if hasattr(n, 'surface'):
            key = abs(n.surface) if n.sub is None else (abs(n.surface), n.sub)
            v = A[:, idx[key]]
            return v if n.surface > 0 else ~v
        if isinstance(n, (tuple, list)):
            op = n[0]
            if op == '*':
                r = ev(n[1])
                for x in n[2:]:
                    r = r & ev(x)
                return r
            if op == ':':
                r = ev(n[1])
                for x in n[2:]:
                    r = r | ev(x)
                return r
            if op == '^':
                if cells_parsed is None:
                    raise ValueError('cell complement left after complement elimination')
                inner = ev(cells_parsed[int(n[1])])
                # ('^', n, '^') is the converter's marker for a doubly complemented cell
                return inner if len(n) > 2 else ~inner
        raise ValueError('unexpected node %r' % (n,))
    return ev(node)


class SeamState:
    def __init__(self, text, tree):
        self.text, self.tree = text, tree
        self.options = []

    @property
    def deck_text(self):
        return ('cell 1: %s\ncell 8: %s\ncell 9: %s\n'
                % (self.text, render_expr(AUX[8]), render_expr(AUX[9])))


def b_seam(ks, lits, compl, tree_free, spell_free=False):
    def build(ch):
        t = choose_tree(ch, 'e', ks, lits, compl=compl, free=tree_free)
        if ch.choose('rootcompl', [False, True], free=tree_free):
            t = ('#', t)
        return SeamState(spell(ch, t, cost_free=spell_free), t)
    return build


def b_long(ch):
    """beyond the small scope: expressions of 12 / 40 / 120 operands, nested up to 60 parentheses deep, with a
    complement every few levels; default spelling (the Boolean function is still over the same few surfaces)"""
    k = ch.choose('operands', [12, 40, 120], free=True)
    shape = ch.choose('shape', ['left-nested', 'right-nested', 'balanced', 'flat-union-of-pairs'], free=True)
    compl_every = ch.choose('complement-every', [0, 5, 2], free=True)
    lits = ch.choose('literals', [SEAM_LITS, LITS7], free=True)
    leaves = [lits[(3 * i + i // 7) % len(lits)] for i in range(k)]

    def op(i):
        return '*' if i % 3 else ':'
    if shape == 'left-nested':
        t = leaves[0]
        for i, l in enumerate(leaves[1:]):
            t = (op(i), t, l)
            if compl_every and i % compl_every == compl_every - 1:
                t = ('#', t)
    elif shape == 'right-nested':
        t = leaves[-1]
        for i, l in enumerate(reversed(leaves[:-1])):
            t = (op(i), l, t)
            if compl_every and i % compl_every == compl_every - 1:
                t = ('#', t)
    elif shape == 'balanced':
        level = list(leaves)
        d = 0
        while len(level) > 1:
            nxt = []
            for i in range(0, len(level) - 1, 2):
                x = (op(i // 2 + d), level[i], level[i + 1])
                if compl_every and (i // 2) % compl_every == compl_every - 1:
                    x = ('#', x)
                nxt.append(x)
            if len(level) % 2:
                nxt.append(level[-1])
            level = nxt
            d += 1
        t = level[0]
    else:
        pairs = [('*', leaves[i], leaves[i + 1]) for i in range(0, k - 1, 2)]
        t = pairs[0]
        for x in pairs[1:]:
            t = (':', t, x)
        if compl_every:
            t = ('#', t)
    return SeamState(spell(ch, t, cost_free=False), t)


DECK_LITS = [1, -1, 2, -2, 4, -4, ('f', 6, 1), ('f', -6, 4), ('^', 8)]


def b_deck(ks, tree_free):
    """Spelled expression inside a full deck, followed by options in several
    spellings (the cell-card splitter decides where the geometry ends)."""
    def build(ch):
        st = c01.St('c11 deck')
        t = choose_tree(ch, 'e', ks, DECK_LITS, compl=True, free=tree_free)
        text = spell(ch, t)
        tail = ch.choose('tail', [' imp:n=1', '  IMP:N=1', ' imp:n 1', ' imp:n=1 $ c', ' u=0 imp:n=1'])
        if text.endswith(')') and ch.choose('glue', [False, True]):
            tail = tail.lstrip()
        mat = ch.choose('mat', ['0', '1 -2.7', '1 -2.7e0', '00', '+0', '000', '-0', '01 -2.7'])
        aux = (':', 2, -4)
        st.cells = ['1 %s %s%s' % (mat, text, tail),
                    '8 0 %s imp:n=1' % render_expr(aux),
                    '9 0 #1 #8 imp:n=1']
        st.cell_exprs = {1: t, 8: aux, 9: ('*', ('^', 1), ('^', 8))}
        st.imps = {1: 1, 8: 1, 9: 1}
        st.used = sorted(set(c01.used_surfaces([t, aux])))
        st.surfs = [c01.SURF_CARDS[s] for s in st.used]
        if mat.lstrip('+-0'):
            st.data = ['m1 13027 1']
        return st
    return build


LITS7 = [1, -1, 2, -2, ('f', 4, 2), ('^', 8), ('^', 9)]


def b_seam2(ks, lits, spell_free=False):
    """trees free; inner/root complements and spelling are costed choices"""
    def build(ch):
        k = ch.choose('k', ks, free=True)
        shp = ch.choose('shape', shapes(k), free=True)
        cnt = [0]

        def fill(s):
            cnt[0] += 1
            me = cnt[0]
            if s is None:
                return ch.choose('leaf%d' % me, lits, free=True)
            op = ch.choose('op%d' % me, ['*', ':'], free=True)
            node = (op, fill(s[0]), fill(s[1]))
            if ch.choose('compl%d' % me, [False, True]):
                node = ('#', node)
            return node
        t = fill(shp)
        return SeamState(spell(ch, t, cost_free=spell_free), t)
    return build


NEST_CORES = [('^', 8), 1, ('^', 9), ('*', 1, -2), (':', ('^', 8), 2), ('f', 4, 2)]


def _nest(ch, cores, other):
    """an operand wrapped directly in 0 ... 6 complement operators #( #( ... ) ), alone or as an operand"""
    core = ch.choose('core', cores, free=True)
    depth = ch.choose('depth', [1, 2, 3, 4, 5, 6, 0], free=True)
    t = core
    for _ in range(depth):
        t = ('#', t)
    ctx = ch.choose('context', ['alone', 'union-left', 'union-right', 'inter-left', 'inter-right', 'in-complement'],
                    free=True)
    if ctx == 'union-left':
        t = (':', t, other)
    elif ctx == 'union-right':
        t = (':', other, t)
    elif ctx == 'inter-left':
        t = ('*', t, other)
    elif ctx == 'inter-right':
        t = ('*', other, t)
    elif ctx == 'in-complement':
        t = ('#', ('*', other, t))
    return t


def b_nested(ch):
    """directly nested complement operators (the parity of the nesting decides), seam level"""
    t = _nest(ch, NEST_CORES, 3)
    return SeamState(spell(ch, t), t)


def b_nested_deck(ch):
    """the same through the whole converter"""
    st = c01.St('c11 nested complements')
    t = _nest(ch, [('^', 8), 1, ('*', 1, -2), (':', ('^', 8), 2), ('f', 6, 1)], 4)
    text = spell(ch, t)
    aux = (':', 2, -4)
    st.cells = ['1 0 %s imp:n=1' % text, '8 0 %s imp:n=1' % render_expr(aux), '9 0 #1 #8 imp:n=1']
    st.cell_exprs = {1: t, 8: aux, 9: ('*', ('^', 1), ('^', 8))}
    st.imps = {1: 1, 8: 1, 9: 1}
    st.used = sorted(set(c01.used_surfaces([t, aux])))
    st.surfs = [c01.SURF_CARDS[s] for s in st.used]
    return st


def scenarios(tier):
    if tier == 'quick':
        return [
            Scn('seam-k2-spell2', b_seam2([1, 2], SEAM_LITS), 3, 3,
                'all trees k<=2; #( ) wrappers and spelling deviations <=2'),
            Scn('seam-k3-spell1', b_seam2([3], LITS7), 1, 2,
                'all trees k=3 over 7 literals; #( ) wrappers and spelling deviations <=1'),
            Scn('seam-k4-dev', b_seam([4], SEAM_LITS, True, False), 3, 3,
                'k=4, tree and spelling deviations bounded together'),
            Scn('seam-k2-allspell', b_seam([2, 1], [-1, ('^', 8)], False, True, True),
                None, None, 'k<=2 over 2 literals, all spelling combinations'),
            Scn('deck-k3', b_deck([2, 1, 3], False), 3, 3, 'spelled cells through the whole converter'),
            Scn('seam-long', b_long, 0, 1, 'expressions of 12 / 40 / 120 operands, nesting up to 60 deep'),
            Scn('seam-nested', b_nested, 2, 3, 'operands under 0 ... 6 directly nested #( ), spelling deviations <= 2 / 3'),
            Scn('deck-nested', b_nested_deck, 1, 2, 'the same through the whole converter'),
        ]
    return [
        Scn('seam-k2-spell3', b_seam2([1, 2], SEAM_LITS), 3, 3,
            'all trees k<=2; #( ) wrappers and spelling deviations <=3'),
        Scn('seam-k3-spell2', b_seam2([3], LITS7), 2, 2,
            'all trees k=3 over 7 literals; #( ) wrappers and spelling deviations <=2'),
        Scn('seam-k4-spell0', b_seam2([4], LITS7), 0, 0, 'all trees k=4 over 7 literals, default spelling'),
        Scn('seam-k5-dev', b_seam([5], SEAM_LITS, True, False), 3, 3,
            'k=5, tree and spelling deviations bounded together'),
        Scn('seam-k2-allspell', b_seam([2, 1], [-1, 2, ('^', 8)], True, True, True),
            None, None, 'k<=2 over 3 literals incl. #( ), all spelling combinations'),
        Scn('deck-k3', b_deck([2, 1, 3], False), 3, 3, 'spelled cells through the whole converter'),
        Scn('seam-long', b_long, 1, 1, 'expressions of 12 / 40 / 120 operands, nesting up to 60 deep'),
        Scn('seam-nested', b_nested, 2, 3, 'operands under 0 ... 6 directly nested #( ), spelling deviations <= 2 / 3'),
        Scn('deck-nested', b_nested_deck, 1, 2, 'the same through the whole converter'),
    ]


_conv = None


def _converter():
    global _conv
    if _conv is None:
        env.install()
        from MIP.geom.parsegeom import get_ast
        from t4_geom_convert.Kernel.Volume.CellConversion import CellConversion
        from t4_geom_convert.Kernel.Volume.CellMCNP import CellMCNP
        _conv = (get_ast, CellConversion, CellMCNP)
    return _conv


def seam_eval(text):
    """(truth table of the parsed tree, truth table after complement elimination)."""
    get_ast, CellConversion, CellMCNP = _converter()
    cells = {}
    for n, txt in ((1, text), (8, render_expr(AUX[8])), (9, render_expr(AUX[9]))):
        cells[n] = CellMCNP('0', None, get_ast(txt), 1.0, 0, None, (), None, [])
    parsed = {n: c.geometry for n, c in cells.items()}
    before = eval_converted(parsed[1], parsed)
    conv = CellConversion(100, 100, {}, {}, {}, cells)
    after_tree = conv.pot_complement(cells[1].geometry)
    after = eval_converted(after_tree, None)
    return before, after, after_tree


def check_state(scn, st):
    if scn.startswith('seam'):
        want = ref_truth(st.tree, AUX)
        try:
            before, after, tree = seam_eval(st.text)
        except Exception as e:
            return verdict(False, st, cls={'kind': 'parse-error', 'exc': type(e).__name__},
                           msg='expression %r rejected: %s: %s' % (st.text, type(e).__name__, e),
                           out='err')
        nontriv = not isinstance(st.tree, int)
        if (before != want).any():
            return verdict(False, st, cls={'kind': 'parse-semantics'},
                           msg='parsed tree of %r differs from the MCNP meaning on %d of %d assignments'
                           % (st.text, int((before != want).sum()), len(want)), out='bad')
        if (after != want).any():
            return verdict(False, st, cls={'kind': 'complement-semantics'},
                           msg='tree of %r after complement elimination differs on %d of %d assignments: %r'
                           % (st.text, int((after != want).sum()), len(want), tree), out='bad')
        return verdict(True, st, out=sha(want.tobytes()), nontrivial=nontriv,
                       stats={'assignments': len(want)})
    # deck scenarios: per-cell agreement at the arrangement witnesses
    r = env.run(st.deck_text, st.options)
    if not r.ok:
        return verdict(False, st, cls={'kind': 'exception', 'exc': r.exc_type},
                       msg='conversion failed: ' + r.brief(), out='err:' + r.exc_type)
    t4 = t4read.parse(r.t4)
    cls, msg = oracle.structural_cls(t4, st.options)
    if cls:
        return verdict(False, st, cls=cls, msg=msg, out=sha(r.body))
    P, info = oracle.probe_points(t4, c01.ref_planes(st.used))
    sense = c01.make_sense(P)
    E = t4read.Evaluator(t4, P)
    bad = []
    for n in (1, 8, 9):
        want = holds(st.cell_exprs[n], sense, st.cell_exprs)
        got = E.inside(n) if n in t4.vols else np.zeros(len(P), bool)
        if (got != want).any():
            i = int(np.where(got != want)[0][0])
            bad.append('cell %d: point %s reference=%s file=%s' % (n, np.round(P[i], 6).tolist(),
                                                                   bool(want[i]), bool(got[i])))
    if bad:
        return verdict(False, st, cls={'kind': 'membership'}, msg='\n'.join(bad) + '\n' + r.body[-1200:],
                       out=sha(r.body))
    return verdict(True, st, out=sha(r.body), stats={'witness_points': len(P)})


def canaries():
    out = []
    t = ('*', 1, (':', 2, ('^', 8)))
    want = ref_truth(t, AUX)
    b, a, _ = seam_eval('1 (2:#8)')
    out.append(('c11-baseline', bool((b == want).all() and (a == want).all())))
    b, a, _ = seam_eval('1 2:#8')       # precedence differs -> must be seen as different
    out.append(('c11-precedence-difference-detected', bool((a != want).any())))
    b, a, _ = seam_eval('1 (2:8)'.replace('8', '-3'))
    out.append(('c11-wrong-literal-detected', bool((a != want).any())))
    return out


def finish(agg, tier):
    if agg['stats'].get('assignments', 0) < 16 * 1000:
        raise Vacuous('too few assignments evaluated')
    return {}
