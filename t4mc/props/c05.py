"""C05 - universes and FILL: points are located through the hierarchy."""
import numpy as np

from .. import env, t4read, oracle, geomdecide, refsem, hier
from ..hier import HDeck, HCell, Tr
from ..runner import Scn, verdict, sha, Vacuous

ID = 'C05'
DECORATE = True
LEVEL = 'model_checking'
RULE = ('E1 enumeration of universe trees: depth 1-3, 2 or 3 cells per universe split by planes, one '
        'universe reused in two containers (same / different / one transformation), per-level '
        'transformation in {none, translation, 90deg about z, 30deg about z, 90deg about x} spelled by '
        'number / inline / inline-3 / starred / inline typed as .5 -.5 +1, container TRCL with and without a FILL transformation, '
        'universe cells with their own TRCL, cards of a universe contiguous / interleaved with other universes / in reverse order, options default / --max-inline-score 0 / always-inline; '
        'oracle = reference locate() + provenance chain at one witness per cell of the joint plane '
        'arrangement (complete); non-trivial = at least two distinct provenance labels realised; '
        'distinct = distinct deck text + options; also: cards of a universe interleaved / reversed, U=-n, importance 0 or no material on a filler cell, filled cell keeping a material, container written as a union of two halves, LIKE / explicit copy of a container, 4-16 nesting levels (scenario deep), an orientation-reversing matrix, rotations alternating with shifts in the deep nestings')
ASSUMPTIONS = [
    'a FILL transformation, when present, replaces the container TRCL for placing the universe (upstream '
    'characterisation of MCNP, DESIGN 5); otherwise the universe moves with the container TRCL',
    'provenance comment = one (lowest-level filler, container) pair per level, innermost first (documented '
    'by the writer)',
    'the IMP value written on a cell of a universe does not decide whether its pieces are generated (the '
    'property statement is unconditional); only the importance of the level-0 container does',
]

RZ90 = refsem.rotation([0, 0, 1], 90.0)
RZ30 = refsem.rotation([0, 0, 1], 30.0)
RX90 = refsem.rotation([1, 0, 0], 90.0)


def motions():
    M = refsem.Motion
    # several motions share a displacement (and differ by the rotation) or share a rotation (and differ by
    # the displacement): a transformation cache keyed on only a part of the transformation collides
    return {
        'none': None,
        't': M((1.0, -0.5, 0.0)),
        'rz90': M((1.0, -0.5, 0.0), RZ90.T),
        'rz30': M((-1.0, 0.5, 0.25), RZ30.T),
        'rx90': M((-1.0, 0.5, 0.25), RX90.T),
        't2': M((-0.5, 1.5, 0.5)),
        'id': M((0.0, 0.0, 0.0)),          # an explicit identity transformation is still a transformation
        'rz90b': M((-0.5, 1.5, 0.5), RZ90.T),
        # orientation-reversing matrix (mirror image of the universe), typed with all nine entries
        'my': M((1.0, -0.5, 0.0), (RZ30 @ np.diag([1.0, -1.0, 1.0])).T),
    }


def make_tr(deck, key, spelling, number):
    m = motions()[key]
    if m is None:
        return None
    if spelling == 'inline3' and not np.allclose(m.B, np.eye(3)):
        spelling = 'inline'
    if spelling in ('number', 'numstar'):
        deck.trcards[number] = (m, spelling == 'numstar')
        return Tr(m, 'number', number)
    return Tr(m, spelling)


SPELL = ['inline', 'number', 'star', 'inline3', 'numstar', 'inline-dot']
TKEYS = ['none', 't', 'rz90', 'rz30', 'rx90', 't2', 'id', 'rz90b', 'my']


def build(ch, with_options=True):
    d = HDeck('c05 universes')
    d.add_surface(1, 'px', [-4.0]); d.add_surface(2, 'px', [0.0]); d.add_surface(3, 'px', [4.0])
    d.add_surface(4, 'py', [-4.0]); d.add_surface(5, 'py', [4.0])
    # the splitting planes of universe 1 are oblique so that a displacement along any axis is visible
    d.add_surface(21, 'p', [1.0, 0.0, 0.5, -2.5]); d.add_surface(22, 'p', [0.0, 1.0, -0.5, 0.5]); d.add_surface(23, 'pz', [1.0])
    d.add_surface(24, 'p', [1.0, 1.0, 0.0, 0.5]); d.add_surface(25, 'py', [-1.0])
    # universe 1 may be bounded by facets of a macrobody instead of plain planes (same loci)
    facets = ch.choose('u1-by-facets', [False, True])
    if facets:
        d.surfcards[50] = 'rpp -30 -2.5 -30 0.5 -30 30'
        d.refsurfs[('f', 50, 1)] = refsem.mcnp_surface('px', [-2.5])
        d.refsurfs[('f', 50, 3)] = refsem.mcnp_surface('py', [0.5])
    s21p, s21m = (('f', 50, 1), ('f', -50, 1)) if facets else (21, -21)
    s22p, s22m = (('f', 50, 3), ('f', -50, 3)) if facets else (22, -22)
    depth = ch.choose('depth', [1, 2, 3])
    ncell = ch.choose('ncell', [2, 3])
    fill10 = ch.choose('fill10', [True, False])
    fill11 = ch.choose('fill11', [False, True])
    if not (fill10 or fill11):
        ch.reject()
    t10 = ch.choose('t10', TKEYS)
    t11 = ch.choose('t11', TKEYS) if fill11 else 'none'
    sp10 = ch.choose('sp10', SPELL) if t10 != 'none' else 'inline'
    sp11 = ch.choose('sp11', SPELL) if t11 != 'none' else 'inline'
    trcl11 = ch.choose('trcl11', ['none', 't', 'rz90', 'rz30', 'my'])
    sptrcl = ch.choose('sptrcl', ['inline', 'number', 'star', 'inline-dot']) if trcl11 != 'none' else 'inline'
    utrcl = ch.choose('utrcl', ['none', 't', 'rz90'])
    t2 = ch.choose('t2', ['none', 't2', 'rz90', 'rx90', 'id']) if depth >= 2 else 'none'
    t3 = ch.choose('t3', ['none', 't', 'rz30']) if depth >= 3 else 'none'
    u2split = ch.choose('u2split', [23, 24]) if depth >= 2 else 23
    imp19 = ch.choose('imp19', [1, 0])
    imp10 = ch.choose('imp10', [1, 0])       # a FILLed level-0 cell of importance 0 produces nothing
    imp11 = ch.choose('imp11', [1, 0])       # ... and an importance-0 cell with a TRCL is still what #11 refers to
    opts = []
    if with_options:
        opts = ch.choose('options', [[], ['--max-inline-score', '0'], ['--always-inline-filling'],
                                     ['--always-inline-filled'],
                                     ['--always-inline-filling', '--always-inline-filled'],
                                     ['--skip-deduplication']])
    # level 0
    c10 = HCell(10, ('*', ('*', 1, -2), ('*', 4, -5)), mat=1, rho='-2.7')
    c11 = HCell(11, ('*', ('*', 2, -3), ('*', 4, -5)), mat=2, rho='-1.0')
    c10.imp = imp10
    c11.imp = imp11
    if not (imp10 or imp11 or imp19):
        ch.reject('nothing to convert')
    # the region of container 10 written as one box or as the union of its two halves (cut by the plane y = 0)
    if ch.choose('container10-shape', ['box', 'union-of-halves']) == 'union-of-halves':
        d.add_surface(26, 'py', [0.0])
        c10.expr = (':', ('*', ('*', 1, -2), ('*', 4, -26)), ('*', ('*', 1, -2), ('*', 26, -5)))
    # a filled cell may keep a material on its card: MCNP ignores it, the pieces take the fillers' materials
    keepmat = ch.choose('container-keeps-material', [False, True])
    if fill10:
        c10.mat = 0 if not keepmat else c10.mat
        c10.fill = 1; c10.filltr = make_tr(d, t10, sp10, 7)
    if fill11:
        c11.mat = 0 if not keepmat else c11.mat
        c11.fill = 1; c11.filltr = make_tr(d, t11, sp11, 8)
    if trcl11 != 'none':
        c11.trcl = make_tr(d, trcl11, sptrcl, 9)
        # the moved cell 11 may reach into the box of cell 10: cut it out
        c10.expr = ('*', c10.expr, ('^', 11))
    d.add_cell(c10); d.add_cell(c11)
    # optionally a third container that is a copy of cell 10 moved by its own TRCL, written as LIKE 10 BUT ...
    # or explicitly; the BUT list may replace the FILL (dropping an inherited fill transformation) and the
    # importance
    copy12 = ch.choose('copy12', ['none', 'like', 'explicit'])
    d.like12 = None
    if copy12 != 'none':
        c12 = HCell(12, c10.expr, mat=c10.mat, rho=c10.rho, imp=c10.imp, fill=c10.fill, filltr=c10.filltr)
        c12.trcl = Tr(refsem.Motion((0.0, 9.5, 0.0)), 'inline3')
        but = ['trcl=(0 9.5 0)']
        f12 = ch.choose('fill12', ['inherit', 'fill=1', 'fill=1-tr']) if fill10 else 'inherit'
        if f12 == 'fill=1':
            c12.fill, c12.filltr = 1, None
            but.append('fill=1')
        elif f12 == 'fill=1-tr':
            c12.fill, c12.filltr = 1, make_tr(d, 't2', 'inline', 2)
            but.append('fill=1 (%s)' % c12.filltr.paren()[0])
        i12 = ch.choose('imp12', ['inherit', 0, 1])
        if i12 != 'inherit':
            c12.imp = i12
            but.append('imp:n=%d' % i12)
        d.add_cell(c12)
        if copy12 == 'like':
            d.like12 = '12 like 10 but ' + ' '.join(but)
        d.add_cell(HCell(19, ('*', ('*', ('^', 10), ('^', 11)), ('^', 12)), imp=imp19))
    else:
        # the rest of level 0: complement of both (cell 11 may be moved by its TRCL)
        d.add_cell(HCell(19, ('*', ('^', 10), ('^', 11)), imp=imp19))
    # universe 1
    if ncell == 2:
        u1 = [HCell(31, s21m, mat=1, rho='-2.7', u=1), HCell(32, s21p, mat=2, rho='-1.0', u=1)]
    else:
        u1 = [HCell(31, s21m, mat=1, rho='-2.7', u=1), HCell(32, ('*', s21p, s22m), mat=2, rho='-1.0', u=1),
              HCell(33, ('*', s21p, s22p), mat=3, rho='-0.5', u=1)]
    if utrcl != 'none':
        # moving one cell of a universe breaks the partition; move all of them alike
        for c in u1:
            c.trcl = make_tr(d, utrcl, 'number', 6)
    if depth >= 2:
        u1[1].mat = 0; u1[1].fill = 2; u1[1].filltr = make_tr(d, t2, 'inline', 5)
        if ncell == 3:
            # universe 2 reused by a second cell of universe 1 (reuse below level 0)
            t2b = ch.choose('t2b', ['no-reuse', 'none', 't2', 'rz90', 'rz90b', 'id'])
            if t2b != 'no-reuse':
                u1[2].mat = 0; u1[2].fill = 2; u1[2].filltr = make_tr(d, t2b, 'number', 3)
    # the importance written on a cell of a universe does not decide whether the piece is generated: the
    # piece belongs to the level-0 container
    # U=-n: the same universe, written with the sign that tells MCNP not to test the container boundary
    uneg = ch.choose('negative-u', ['none', 'first-cell', 'all-cells'])
    for k, c in enumerate(u1):
        c.u_negative = (uneg == 'all-cells') or (uneg == 'first-cell' and k == 0)
    # a void cell among the fillers
    if ch.choose('void-filler', [False, True]):
        u1[0].mat = 0; u1[0].rho = None
    fimp0 = ch.choose('filler-imp0', [None, 0, 1])
    if fimp0 is not None:
        u1[fimp0].imp = 0
    for c in u1:
        d.add_cell(c)
    if depth >= 2:
        u2 = [HCell(41, -u2split, mat=1, rho='-2.7', u=2), HCell(42, u2split, mat=3, rho='-0.5', u=2)]
        if depth >= 3:
            u2[1].mat = 0; u2[1].fill = 3; u2[1].filltr = make_tr(d, t3, 'inline', 4)
        for c in u2:
            d.add_cell(c)
    if depth >= 3:
        d.add_cell(HCell(51, -25, mat=2, rho='-1.0', u=3)); d.add_cell(HCell(52, 25, mat=1, rho='-2.7', u=3))
    d.mats = {1: '13027 1', 2: '26056 1', 3: '1001 2 8016 1'}
    if ch.choose('numbering', ['plain', 'high']) == 'high':
        # surface numbers that look like implicit surfaces 1000*cell+surf of the TRCL cell 11, a universe and a
        # TR card numbered like cells, sparse cell numbers with the importance-0-capable cell far above the rest
        d.smap = {n: 11000 + n for n in list(d.surfcards) if isinstance(n, int)}
        d.cmap = {10: 10, 11: 11, 12: 412, 19: 99999, 31: 7, 32: 2001, 33: 33, 41: 1041, 42: 5, 51: 3, 52: 12}
        d.umap = {1: 31, 2: 10, 3: 3}
        d.tmap = {7: 31, 8: 11, 9: 10, 6: 999, 5: 5, 4: 4, 3: 1}
    kwo = ch.choose('keyword-order', [None, ['imp', 'trcl', 'fill', 'u'], ['fill', 'imp', 'u', 'trcl'],
                                      ['trcl', 'u', 'imp', 'fill']])
    for c in d.hcells:
        c.kw_order = kwo
    d.options = list(opts)
    # the cards of one universe need not be contiguous, nor the level-0 cells come first
    d.card_order = ch.choose('card-order', ['given', 'interleaved', 'reversed'])
    # cell 11 moved by a TRCL may overlap cell 10: the deck is then ill-formed; reject
    d.trcl11 = trcl11
    d.finish()
    if d.like12:
        # cell numbers of the LIKE card follow the rendering maps
        n12, n10 = d.cmap.get(12, 12), d.cmap.get(10, 10)
        txt = d.like12.replace('12 like 10 but', '%d like %d but' % (n12, n10))
        txt = txt.replace('fill=1', 'fill=%d' % d.umap.get(1, 1))
        d.cells = [txt if c.split()[0] == str(n12) else c for c in d.cells]
    return d


def build_deep(ch, with_options=True):
    """beyond the small scope: 4 ... 16 levels of nested universes (each level a slab filled with the next
    universe, flanked by two material cells), optionally shifted at every level, optionally reused by a second
    level-0 container"""
    d = HDeck('c05 deep nesting')
    depth = ch.choose('levels', [4, 8, 11, 12, 16], free=True)
    tr = ch.choose('level-transformation', ['none', 'shift', 'shift-number', 'rot-odd', 'rot-even'], free=True)
    reuse = ch.choose('second-container', [False, True], free=True)
    if tr.startswith('rot') and depth > 4:
        ch.reject('rotated levels: 4 levels only (the cost grows quickly with the number of distinct planes)')
    opts = []
    if with_options:
        opts = ch.choose('options', [[], ['--max-inline-score', '0'], ['--always-inline-filling'],
                                     ['--always-inline-filled'], ['--max-inline-score', '0', '--skip-deduplication']],
                         free=True)
    a = [8.0 - 0.45 * k for k in range(depth + 1)]
    for k in range(depth + 1):
        d.add_surface(10 * k + 1, 'px', [-a[k]])
        d.add_surface(10 * k + 2, 'px', [a[k]])
    d.add_surface(901, 'py', [-5.0]); d.add_surface(902, 'py', [5.0]); d.add_surface(903, 'py', [15.0])

    def filltr(k):
        if tr == 'none':
            return None
        m = refsem.Motion((0.1 if k % 2 else -0.1, 0.0, 0.25 if k % 3 == 0 else 0.0))
        if tr in ('rot-odd', 'rot-even'):
            # rotations at every other level, pure shifts in between: the two do not commute
            if k % 2 == (1 if tr == 'rot-odd' else 0):
                return Tr(refsem.Motion((0.1, -0.2, 0.0), (RZ30 if k % 4 < 2 else RX90).T), 'inline')
            return Tr(refsem.Motion((0.3, 0.2, -0.1)), 'inline3')
        if tr == 'shift-number':
            d.trcards[50 + k] = (m, False)
            return Tr(m, 'number', 50 + k)
        return Tr(m, 'inline3')
    # level 0
    box = ('*', ('*', 1, -2), ('*', 901, -902))
    d.add_cell(HCell(10, box, fill=1, filltr=filltr(0)))
    rest = ('^', 10)
    if reuse:
        box2 = ('*', ('*', 1, -2), ('*', 902, -903))
        d.add_cell(HCell(11, box2, fill=1, filltr=Tr(refsem.Motion((0.0, 10.0, 0.0)), 'inline3')))
        rest = ('*', ('^', 10), ('^', 11))
    d.add_cell(HCell(19, rest, imp=0))
    for k in range(1, depth + 1):
        lo, hi = 10 * k + 1, 10 * k + 2
        if k < depth:
            d.add_cell(HCell(100 * k, ('*', lo, -hi), fill=k + 1, filltr=filltr(k), u=k))
        else:
            d.add_cell(HCell(100 * k, ('*', lo, -hi), mat=3, rho='-0.5', u=k))
        d.add_cell(HCell(100 * k + 1, -lo, mat=1, rho='-2.7', u=k))
        d.add_cell(HCell(100 * k + 2, hi, mat=2, rho='-1.0', u=k))
    d.mats = {1: '13027 1', 2: '26056 1', 3: '1001 2 8016 1'}
    d.options = list(opts)
    d.trcl11 = 'none'
    d.like12 = None
    d.finish()
    return d


def ref_planes(d):
    """every reference plane in every frame it is used in (independent of the file)"""
    return d.all_ref_planes()


def check_state(scn, st, corrupt=None, result=None):
    r = result if result is not None else env.run(st.deck_text, st.options)
    # well-formedness of the generated deck (reference side)
    if not r.ok:
        return verdict(False, st, cls={'kind': 'exception', 'exc': r.exc_type},
                       msg='conversion failed: %s\n%s' % (r.brief(), st.deck_text), out='err:' + r.exc_type)
    t4 = t4read.parse(r.t4)
    cls, msg = oracle.structural_cls(t4, st.options)
    if cls:
        return verdict(False, st, cls=cls, msg=msg + '\n' + st.deck_text + r.body[:1500], out=sha(r.body))
    P, info = oracle.probe_points(t4, ref_planes(st))
    if not info['complete']:
        return verdict(False, st, cls={'kind': 'non-plane-surface'}, msg='curved surface in a plane deck',
                       out=sha(r.body))
    chains, problems = st.locate(P)
    if problems:
        raise RuntimeError('generated deck is not a partition (harness defect): %s' % problems[:2])
    expected = np.empty(len(P), object)
    for i, ch in enumerate(chains):
        if ch is None:
            expected[i] = None
        elif st.cell(ch[0]).imp == 0:
            expected[i] = None
        else:
            expected[i] = hier.provenance_label(ch, st.cmap)
    if corrupt == 'swap':
        expected = np.array([((e[0][::-1],) + e[1:]) if e and e[0] != 'cell' else e for e in expected],
                            object)
    labels = set(e for e in expected if e is not None)
    bad = oracle.compare_owner(t4, P, expected, label_of=lambda v: hier.t4_label(t4, v))
    stats = {'witness_points': len(P), 'labels': len(labels)}
    if bad:
        return verdict(False, st, cls={'kind': 'location', 'options': ' '.join(st.options)},
                       msg='%s\n%s\n%s' % ('\n'.join(bad[:6]), st.deck_text, r.body[:2500]),
                       out=sha(r.body), stats=stats)
    return verdict(True, st, out=sha(r.body), nontrivial=len(labels) >= 2, stats=stats)


def scenarios(tier):
    return [Scn('trees', build, 4 if tier == 'quick' else 6, 6, 'all choices costed; deviation-bounded'),
            Scn('deep', build_deep, None, None, '4 ... 16 levels of nested universes x options: complete product')]


def canaries():
    from ..explore import PresetChooser
    st = build(PresetChooser({'depth': 1, 't10': 2}))
    return [('c05-baseline', check_state('trees', st)['ok']),
            ('c05-swapped-provenance-detected', not check_state('trees', st, corrupt='swap')['ok'])]


def finish(agg, tier):
    if agg['stats'].get('witness_points', 0) < 10000:
        raise Vacuous('too few witness points')
    return {}
