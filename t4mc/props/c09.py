"""C09 - each volume gets the material and density of the owning MCNP cell."""
import numpy as np

from .. import env, t4read, oracle, hier, refsem
from ..hier import HDeck, HCell
from ..runner import Scn, verdict, sha, Vacuous
from . import c05

ID = 'C09'
DECORATE = True
LEVEL = 'model_checking'
RULE = ('E1 enumeration of decks: materials {0,1,2,3} x density spellings (trailing zeros, e/E/d/D/omitted '
        'exponent marker, numerically different values) on level-0 layouts and on the C05 universe trees '
        '(filler and container materials differ), LIKE n BUT MAT/RHO; oracle: for every arrangement '
        'witness, the GEOMCOMP line that lists the volume containing it names the composition of the '
        'reference owner (lowest-level filler) cell: void -> m0, equal (material, density class) <-> same '
        'name, and the COMPOSITION entry of that name carries that density; non-trivial = at least two '
        'distinct compositions in use; distinct = deck text + options')
ASSUMPTIONS = [
    'density spelling classes: trailing zeros of the fractional part, exponent marker e/E/d/D or omitted with '
    'an explicit sign, over identical digits (the classes normalize_float documents)',
    'geometry semantics as in C05',
]

# (spelling, class id, numeric value)
RHO = {
    'a': [('-2.7', 'a'), ('-2.70', 'a'), ('-2.700', 'a'), ('-2.7e0', 'a2'), ('-2.7E+0', 'a3')],
    'b': [('-1.0', 'b'), ('-1.00', 'b'), ('-1.000', 'b')],
    'c': [('6.4-2', 'c'), ('6.4e-2', 'c'), ('6.4E-2', 'c'), ('6.4d-2', 'c'), ('6.40D-2', 'c'),
          ('6.4e-02', 'c2')],
    'd': [('-2.71', 'd'), ('-0.27', 'e'), ('-1.0e1', 'f'), ('-1.0e10', 'g'), ('6.4-3', 'h'),
          # numerically different although close: must never share a composition
          ('-2.7000004', 'n1'), ('-2.70000041', 'n2'), ('6.4000003-2', 'n3'), ('-2.6999996', 'n4')],
}
VAL = {'-2.7': -2.7, '-2.70': -2.7, '-2.700': -2.7, '-2.7e0': -2.7, '-2.7E+0': -2.7,
       '-1.0': -1.0, '-1.00': -1.0, '-1.000': -1.0,
       '6.4-2': 0.064, '6.4e-2': 0.064, '6.4E-2': 0.064, '6.4d-2': 0.064, '6.40D-2': 0.064, '6.4e-02': 0.064,
       '-2.71': -2.71, '-0.27': -0.27, '-1.0e1': -10.0, '-1.0e10': -1e10, '6.4-3': 0.0064,
       '-2.7000004': -2.7000004, '-2.70000041': -2.70000041, '6.4000003-2': 0.064000003, '-2.6999996': -2.6999996}
ALL_RHO = [x for k in 'abcd' for x in RHO[k]]
# '6.4e-02' vs '6.4e-2' (zeros inside the exponent), '-2.7' vs '-2.7e0' (zero exponent) and 'e0' vs 'E+0'
# (explicit exponent sign) are not documented spelling classes: both groupings are accepted there, only
# the numeric value of the composition is checked
FREE_CLASSES = {'c2': 'c', 'a2': 'a', 'a3': 'a'}


def rho_class(mat, cls):
    return (mat, FREE_CLASSES.get(cls, cls)), (mat, cls)


def b_level0(ch):
    """four slabs + rest, each with its own (material, density spelling)"""
    d = HDeck('c09 level0')
    xs = [-4.0, -2.0, 0.0, 2.0, 4.0]
    for i, x in enumerate(xs):
        d.add_surface(i + 1, 'px', [x])
    d.rho_cls = {}
    for i in range(4):
        mat = ch.choose('mat%d' % i, [1, 2, 0, 1] if i % 2 == 0 else [1, 0, 2, 2])
        if mat:
            rho, cls = ch.choose('rho%d' % i, ALL_RHO)
        else:
            rho, cls = None, None
        d.add_cell(HCell(10 + i, ('*', i + 1, -(i + 2)), mat=mat, rho=rho))
        d.rho_cls[10 + i] = cls
    d.add_cell(HCell(19, (':', -1, 5), imp=ch.choose('imp19', [0, 1])))
    d.rho_cls[19] = None
    d.mats = {1: '13027 1', 2: '26056 0.9 26054 0.1'}
    # the association must not depend on the other output switches
    d.options = ch.choose('options', [[], ['--skip-compositions'], ['--skip-boundary-conditions'],
                                      ['--skip-compositions', '--skip-boundary-conditions']])
    d.finish()
    # the material number is an integer field: 00 / +0 is the void, 01 is material 1
    sp = ch.choose('matnum-spelling', ['plain', 'leading-zero', 'sign'])
    if sp != 'plain':
        import re
        pre = '0' if sp == 'leading-zero' else '+'
        d.cells = [re.sub(r'^(\d+) (\d+) ', lambda m: '%s %s%s ' % (m.group(1), pre, m.group(2)), c) for c in d.cells]
    return d


def b_tree(ch):
    """C05 universe tree; every material cell additionally chooses a spelling of its density class"""
    d = c05.build(ch)
    d.rho_cls = {}
    base = {'-2.7': 'a', '-1.0': 'b', '-0.5': None}
    for c in d.hcells:
        if not c.mat:
            d.rho_cls[c.num] = None
            continue
        k = base.get(c.rho)
        if k is None:
            d.rho_cls[c.num] = 'z'
            continue
        rho, cls = ch.choose('rho%d' % c.num, RHO[k])
        c.rho = rho
        d.rho_cls[c.num] = cls
    VAL['-0.5'] = -0.5
    return d.finish()


def b_like(ch):
    """LIKE n BUT MAT / RHO overrides"""
    d = HDeck('c09 like')
    for i, x in enumerate([-4.0, -2.0, 0.0, 2.0, 4.0]):
        d.add_surface(i + 1, 'px', [x])
    r0, c0 = ch.choose('rho10', ALL_RHO)
    d.add_cell(HCell(10, ('*', 1, -2), mat=1, rho=r0))
    d.rho_cls = {10: c0, 19: None}
    but = ch.choose('but', ['rho', 'mat', 'mat+rho', 'rho+mat'])
    r1, c1 = ch.choose('rho11', ALL_RHO)
    newmat = 2
    parts = []
    for kw in but.split('+'):
        parts.append('rho=%s' % r1 if kw == 'rho' else 'mat=%d' % newmat)
    d.like_card = '11 like 10 but trcl=(2 0 0) %s imp:n=1' % ' '.join(parts)
    mat11 = newmat if 'mat' in but else 1
    rho11, cls11 = (r1, c1) if 'rho' in but else (r0, c0)
    ref11 = HCell(11, ('*', 2, -3), mat=mat11, rho=rho11)
    d.add_cell(ref11)
    d.rho_cls[11] = cls11
    d.add_cell(HCell(19, (':', -1, 3), imp=1))
    d.mats = {1: '13027 1', 2: '26056 0.9 26054 0.1'}
    d.finish()
    d.cells[1] = d.like_card
    # cell 19: everything outside [-4, 0]
    return d


def scenarios(tier):
    q = tier == 'quick'
    return [
        Scn('level0', b_level0, 3 if q else 4, 4, 'four slabs with materials and density spellings'),
        Scn('tree', b_tree, 3 if q else 4, 4, 'C05 universe trees with spelled densities'),
        Scn('like', b_like, None, None, 'LIKE n BUT MAT/RHO'),
    ]


def geomcomp_map(t4):
    m = {}
    for name, cnt, ids in t4.geomcomp:
        for v in ids:
            m[v] = name
    return m


def check_state(scn, st, corrupt=False, result=None):
    r = result if result is not None else env.run(st.deck_text, st.options)
    if not r.ok:
        return verdict(False, st, cls={'kind': 'exception', 'exc': r.exc_type},
                       msg='conversion failed: %s\n%s' % (r.brief(), st.deck_text), out='err:' + r.exc_type)
    t4 = t4read.parse(r.t4)
    cls, msg = oracle.structural_cls(t4, st.options)
    if cls:
        return verdict(False, st, cls=cls, msg=msg + '\n' + st.deck_text + r.body[:1500], out=sha(r.body))
    P, info = oracle.probe_points(t4, c05.ref_planes(st))
    chains, problems = st.locate(P)
    if problems:
        raise RuntimeError('generated deck is not a partition: %s' % problems[:2])
    gmap = geomcomp_map(t4)
    E = t4read.Evaluator(t4, P)
    owner_vol = np.full(len(P), -1)
    for v in t4.nonvirtual():
        owner_vol[E.inside(v)] = v
    compos = {c['name']: c for c in t4.compos}
    name_of_class = {}
    classes_of_name = {}
    bad = []
    for i, chn in enumerate(chains):
        if chn is None or st.cell(chn[0]).imp == 0:
            continue
        filler = chn[-1]
        if isinstance(filler, tuple):
            continue
        cell = st.cell(filler)
        if corrupt:
            cell = st.cell(chn[0])
        v = owner_vol[i]
        if v < 0:
            bad.append('point %s owned by cell %s lies in no volume' % (np.round(P[i], 5).tolist(), filler))
            continue
        name = gmap.get(v)
        if not cell.mat:
            if name != 'm0':
                bad.append('point %s: void cell %s, volume %s is under %s' % (np.round(P[i], 5).tolist(),
                                                                               filler, v, name))
            continue
        coarse, fine = rho_class(cell.mat, st.rho_cls[cell.num])
        if name is None or not name.startswith('m%d_' % cell.mat):
            bad.append('point %s: cell %s has material %s density %s, volume %s is under %s'
                       % (np.round(P[i], 5).tolist(), filler, cell.mat, cell.rho, v, name))
            continue
        name_of_class.setdefault(fine, set()).add(name)
        classes_of_name.setdefault(name, set()).add(coarse)
        c = compos.get(name)
        val = VAL[cell.rho]
        if c is not None:
            if c['kind'] == 'DENSITY':
                ok = val < 0 and abs(c['density'] - abs(val)) <= 1e-12 * abs(val)
            else:
                tot = sum(x[1] for x in c['items'])
                ok = val > 0 and abs(tot - val) <= 1e-9 * val
            if not ok:
                bad.append('composition %s does not carry the density %s of cell %s' % (name, cell.rho, filler))
    for fine, names in name_of_class.items():
        if len(names) > 1:
            bad.append('cells of one (material, density class) %s are under several compositions %s'
                       % (fine, sorted(names)))
    # spelling-equivalent densities must share one composition
    by_coarse = {}
    for fine, names in name_of_class.items():
        coarse = (fine[0], FREE_CLASSES.get(fine[1], fine[1]))
        if fine[1] in FREE_CLASSES:
            continue
        by_coarse.setdefault(coarse, set()).update(names)
    for coarse, names in by_coarse.items():
        if len(names) > 1:
            bad.append('densities of class %s differ only in spelling but use compositions %s'
                       % (coarse, sorted(names)))
    for name, cl in classes_of_name.items():
        if len(cl) > 1:
            bad.append('composition %s is shared by numerically different classes %s' % (name, sorted(cl)))
    bad = sorted(set(bad))
    stats = {'witness_points': len(P), 'compositions': len(classes_of_name)}
    if bad:
        kind = 'sharing' if any('spelling' in b or 'shared' in b or 'several' in b for b in bad) else 'owner'
        return verdict(False, st, cls={'kind': kind, 'scenario': scn},
                       msg='%s\n%s\n%s' % ('\n'.join(bad[:6]), st.deck_text, r.body[-1800:]),
                       out=sha(r.body), stats=stats)
    return verdict(True, st, out=sha(r.body), nontrivial=len(classes_of_name) >= 2, stats=stats)


def canaries():
    from ..explore import PresetChooser
    st = b_tree(PresetChooser({'depth': 1}))
    return [('c09-baseline', check_state('tree', st)['ok']),
            ('c09-container-instead-of-filler-detected', not check_state('tree', st, corrupt=True)['ok'])]


def finish(agg, tier):
    if agg['stats'].get('compositions', 0) < 100:
        raise Vacuous('too few compositions observed')
    return {}
