"""C10 - material cards become compositions with the same nuclides and amounts."""
import numpy as np

from .. import env, t4read, oracle
from ..deck import Deck
from ..runner import Scn, verdict, sha, Vacuous

ID = 'C10'
DECORATE = True
LEVEL = 'model_checking'
RULE = ('E1 enumeration of material cards: Z = 1..118 (all) x A in {000, 001, a typical A, 294}; then over a '
        '6-nuclide subset: library suffix {none, .70c, .80c}, keyword entries (nlib=70c, gas=1) before / '
        'between / after the pairs, 1-3 nuclides, fraction spellings {1., 0.5, 2.5e-2, 1e-30, 4}, all-positive '
        '/ all-negative / mixed signs, mass or atom cell density; two-card decks with MT / MX / MPN / Mnn / MODE cards, comments, continuation lines, upper case around the cards; oracle: independent periodic table; '
        'nuclides in card order with symbol+A (-NAT for 000); DENSITY |rho| with NB_ATOM iff entries positive '
        'and values |entries|, or POINT_WISE with concentrations proportional to the fractions and summing to '
        'rho; mixed signs -> error; non-trivial = card with a nuclide; distinct = deck text; also: a nuclide with a null fraction')
ASSUMPTIONS = ['TRIPOLI-4 nuclide naming SYMBOL+A / SYMBOL-NAT as used by the writer',
               'metastable ZAIDs (A > 300) are not generated']

SYMBOLS = ('H HE LI BE B C N O F NE NA MG AL SI P S CL AR K CA SC TI V CR MN FE CO NI CU ZN GA GE AS SE BR KR '
           'RB SR Y ZR NB MO TC RU RH PD AG CD IN SN SB TE I XE CS BA LA CE PR ND PM SM EU GD TB DY HO ER TM YB '
           'LU HF TA W RE OS IR PT AU HG TL PB BI PO AT RN FR RA AC TH PA U NP PU AM CM BK CF ES FM MD NO LR RF '
           'DB SG BH HS MT DS RG CN NH FL MC LV TS OG').split()
assert len(SYMBOLS) == 118


def typical_a(z):
    return max(z, int(round(z * 2.0 + z * z * 0.006)))


class St(Deck):
    pass


def make(entries, rho, keywords=(), kwpos='none', suffix=''):
    """entries: list of (z, a, fraction string)"""
    st = St('c10 material')
    st.entries, st.rho = entries, rho
    toks = []
    for (z, a, f) in entries:
        toks.append(('%d%03d%s' % (z, a, suffix), f))
    parts = []
    kw = list(keywords)
    if kwpos == 'before':
        parts += kw
    for i, (zaid, f) in enumerate(toks):
        parts += [zaid, f]
        if kwpos == 'between' and i == 0:
            parts += kw
    if kwpos == 'after':
        parts += kw
    st.cells = ['1 1 %s -1 imp:n=1' % rho, '2 0 1 imp:n=1']
    st.surfs = ['1 so 5']
    st.data = ['m1 ' + ' '.join(parts)]
    return st


def b_zaid(ch):
    z = ch.choose('Z', list(range(1, 119)), free=True)
    a = ch.choose('A', ['typ', 0, 1, 294], free=True)
    a = typical_a(z) if a == 'typ' else a
    return make([(z, a, '1.')], '-2.5')


SUB = [(1, 1), (8, 16), (26, 0), (92, 235), (6, 12), (100, 257)]
FRACS = ['1.', '0.5', '2.5e-2', '1e-30', '4', '5.0e-8', '3.0e+7', '0']     # '0': a nuclide listed but absent


def b_forms(ch):
    n = ch.choose('n', [2, 1, 3])
    first = ch.choose('first', list(range(len(SUB))))
    sign = ch.choose('sign', ['+', '-', 'mixed', 'mixed-last'])
    repeat = ch.choose('repeat-nuclide', ['no', 'last=first', 'adjacent'])
    entries = []
    for i in range(n):
        z, a = SUB[(first + i) % len(SUB)]
        if n > 1 and ((repeat == 'last=first' and i == n - 1) or (repeat == 'adjacent' and i == 1)):
            z, a = SUB[first % len(SUB)]          # the same nuclide listed twice (valid MCNP)
        f = ch.choose('frac%d' % i, FRACS[i:] + FRACS[:i])
        neg = (sign == '-') or (sign == 'mixed' and i == 0) or (sign == 'mixed-last' and i == n - 1)
        if sign.startswith('mixed') and n == 1:
            ch.reject()
        entries.append((z, a, ('-' + f) if neg else f))
    if all(float(e[2]) == 0.0 for e in entries):
        ch.reject('no nuclide present')
    rho = ch.choose('rho', ['-2.5', '0.05', '-1.0e-3', '6.4-2', '2.5e-8', '-3.0e-9', '7.5e+7'])
    suffix = ch.choose('suffix', ['', '.70c', '.80c', '.03c'])
    kwpos = ch.choose('kwpos', ['none', 'after', 'before', 'between'])
    kws = ch.choose('kws', [['nlib=70c'], ['gas=1'], ['nlib=70c', 'gas=1'], ['NLIB=.70c']]) if kwpos != 'none' else []
    st = make(entries, rho, kws, kwpos, suffix)
    st.sign = sign
    return st


def b_two(ch):
    """two material cards used by two cells, at the same or at different densities"""
    st = St('c10 two materials')
    e1 = [(1, 1, '2'), (8, 16, '1')]
    which = ch.choose('second', ['fe', 'same-nuclides', 'single'])
    e2 = {'fe': [(26, 56, '0.9'), (26, 54, '0.1')], 'same-nuclides': [(1, 1, '1'), (8, 16, '3')],
          'single': [(92, 235, '1.')]}[which]
    neg = ch.choose('mass-fractions-2', [False, True])
    if neg:
        e2 = [(z, a, '-' + f) for z, a, f in e2]
    rho1 = ch.choose('rho1', ['-2.5', '0.05', '-7.8'])
    rho2 = ch.choose('rho2', ['same', '-7.8', '0.05', '-2.50'])
    rho2 = rho1 if rho2 == 'same' else rho2
    order = ch.choose('card-order', ['m1-first', 'm2-first'])
    third = ch.choose('third-cell', [False, True])
    st.cells = ['1 1 %s -1 imp:n=1' % rho1, '3 2 %s 1 -2 imp:n=1' % rho2, '2 0 2 imp:n=1']
    if third:
        st.cells.insert(2, '4 1 %s 2 -3 imp:n=1' % rho2)
        st.cells[-1] = '2 0 3 imp:n=1'
    st.surfs = ['1 so 5', '2 so 8', '3 so 11']
    c1 = 'm1 ' + ' '.join('%d%03d %s' % e for e in e1)
    c2 = 'm2 ' + ' '.join('%d%03d %s' % e for e in e2)
    # other data cards whose mnemonic starts with M, comments, continuation lines, upper case
    clutter = ch.choose('clutter', ['none', 'mt1', 'mx1', 'mpn1', 'm10', 'm21', 'mode', 'comment', 'continuation',
                                    'ampersand', 'uppercase', 'tabs-spaces', 'inline-comment'])
    extra = {'mt1': 'mt1 lwtr.10t', 'mx1': 'mx1:n j 8017', 'mpn1': 'mpn1 0 8016', 'm10': 'm10 8017 1',
             'm21': 'm21 26058 1', 'mode': 'mode n p', 'comment': 'c m2 8017 1'}.get(clutter)
    if clutter == 'continuation':
        c1 = 'm1 %d%03d %s\n      %d%03d %s' % (e1[0] + e1[1])
    elif clutter == 'ampersand':
        c1 = 'm1 %d%03d %s &\n%d%03d %s' % (e1[0] + e1[1])
    elif clutter == 'uppercase':
        c1, c2 = c1.replace('m1', 'M1'), c2.replace('m2', 'M2')
    elif clutter == 'tabs-spaces':
        c1, c2 = c1.replace(' ', '   '), c2.replace(' ', '  ')
    elif clutter == 'inline-comment':
        c1 = 'm1 %d%03d %s $ 8017 5\n      %d%03d %s $ end' % (e1[0] + e1[1])
    st.data = [c1, c2] if order == 'm1-first' else [c2, c1]
    if extra:
        st.data.insert(ch.choose('clutter-at', [1, 0, 2]), extra)
    st.multi = [(1, e1, rho1), (3, e2, rho2)] + ([(4, e1, rho2)] if third else [])
    st.entries, st.rho = e1, rho1
    return st


def b_big(ch):
    """beyond the small scope: 10 / 30 / 60 nuclides on a card continued over many lines, material numbers with
    2 - 6 digits, a dozen materials in one deck"""
    n = ch.choose('nuclides', [10, 30, 60], free=True)
    mnum = ch.choose('material-number', [1, 99, 100, 4321, 123456], free=True)
    sign = ch.choose('sign', ['+', '-'], free=True)
    rho = ch.choose('rho', ['-2.5', '0.05'], free=True)
    wrap = ch.choose('wrap', [70, 30, 0], free=True)
    others = ch.choose('other-materials', [0, 11], free=True)
    zs = [1 + (7 * i) % 98 for i in range(n)]
    entries = [(z, typical_a(z), ('-' if sign == '-' else '') + repr(round(0.5 + 0.25 * (i % 5), 3))) for i, z in enumerate(zs)]
    st = St('c10 big')
    st.entries, st.rho = entries, rho
    card = 'm%d %s' % (mnum, ' '.join('%d%03d %s' % e for e in entries))
    if wrap:
        words, lines, cur = card.split(' '), [], ''
        for w in words:
            if cur and len(cur) + 1 + len(w) > wrap:
                lines.append(cur); cur = w
            else:
                cur = (cur + ' ' + w) if cur else w
        lines.append(cur)
        card = '\n     '.join(lines)
    st.cells = ['1 %d %s -1 imp:n=1' % (mnum, rho), '2 0 1 imp:n=1']
    st.surfs = ['1 so 5']
    st.data = [card]
    st.multi = [(1, entries, rho)]
    for k in range(others):
        # further materials, each used by a shell
        mk = mnum + 1 + 3 * k
        e = [(26, 54 + (k % 4), '1'), (8, 16, repr(1.0 + k))]
        st.data.insert(k % 2 * len(st.data), 'm%d %s' % (mk, ' '.join('%d%03d %s' % x for x in e)))
        st.cells.insert(1 + k, '%d %d -7.8 %d -%d imp:n=1' % (10 + k, mk, 1 + k, 2 + k))
        st.surfs.append('%d so %d' % (2 + k, 6 + k))
        st.multi.append((10 + k, e, '-7.8'))
    if others:
        st.cells[-1] = '2 0 %d imp:n=1' % (1 + others)
    return st


def scenarios(tier):
    return [Scn('big', b_big, None, None, 'long cards, large material numbers, a dozen materials'),
            Scn('zaid', b_zaid, None, None, 'all Z x 4 mass numbers'),
            Scn('two-materials', b_two, None, None, 'two cards, coinciding or different cell densities, other M* cards / comments / continuations around them'),
            Scn('forms', b_forms, 5 if tier == 'quick' else 7, 7, 'suffixes, keywords, counts, spellings, signs, densities')]


def fval(s):
    s = s.strip().lower().replace('d', 'e')
    import re
    m = re.match(r'^([-+]?[0-9.]+)([-+][0-9]+)$', s)
    if m:
        s = m.group(1) + 'e' + m.group(2)
    return float(s)


def check_one(t4, cell, entries, rho_s):
    signs = set(f.startswith('-') for _, _, f in entries)
    name = None
    for nm, cnt, ids in t4.geomcomp:
        if cell in ids:
            name = nm
    comp = next((c for c in t4.compos if c['name'] == name), None)
    if comp is None:
        return ['no composition %s for cell %d' % (name, cell)]
    bad = []
    want_names = ['%s%s' % (SYMBOLS[z - 1], ('-NAT' if a == 0 else str(a))) for z, a, _ in entries]
    got_names = [x[0] for x in comp['items']]
    if got_names != want_names:
        bad.append('nuclides %s, expected %s' % (got_names, want_names))
    rho = fval(rho_s)
    fr = [abs(fval(f)) for _, _, f in entries]
    got = [x[1] for x in comp['items']]
    positive = not any(signs)
    if rho < 0:
        if comp['kind'] != 'DENSITY':
            bad.append('mass density written as %s' % comp['kind'])
        else:
            if abs(comp['density'] - abs(rho)) > 1e-12 * abs(rho):
                bad.append('DENSITY %r, expected %r' % (comp['density'], abs(rho)))
            if comp['nb_atom'] != positive:
                bad.append('NB_ATOM flag is %s for %s fractions' % (comp['nb_atom'], 'atom' if positive else 'mass'))
            if len(got) == len(fr) and not np.allclose(got, fr, rtol=1e-12, atol=0):
                bad.append('fractions %s, expected %s' % (got, fr))
    else:
        if comp['kind'] != 'POINT_WISE':
            bad.append('atom density written as %s' % comp['kind'])
        elif positive:
            tot = sum(fr)
            want = [f * rho / tot for f in fr]
            if len(got) == len(want) and not np.allclose(got, want, rtol=1e-12, atol=0):
                bad.append('concentrations %s, expected %s' % (got, want))
            if abs(sum(got) - rho) > 1e-12 * rho:
                bad.append('concentrations sum to %r, cell density is %r' % (sum(got), rho))
        else:
            return None      # mass fractions with an atom density: outside the statement (converter warns)
    return bad


def check_state(scn, st):
    r = env.run(st.deck_text, st.options)
    multi = getattr(st, 'multi', None) or [(1, st.entries, st.rho)]
    mixed = any(len(set(f.startswith('-') for _, _, f in e)) > 1 for _, e, _ in multi)
    if mixed:
        if r.ok:
            return verdict(False, st, cls={'kind': 'mixed-signs-accepted'},
                           msg='a material card mixing atom and mass fractions was converted\n' + st.data[0],
                           out=sha(r.body))
        return verdict(True, st, out='err:' + r.exc_type, stats={'rejected_mixed': 1})
    if not r.ok:
        return verdict(False, st, cls={'kind': 'exception', 'exc': r.exc_type},
                       msg='conversion failed: %s\n%s' % (r.brief(), st.deck_text), out='err:' + r.exc_type)
    t4 = t4read.parse(r.t4)
    cls, msg = oracle.structural_cls(t4, st.options)
    if cls:
        return verdict(False, st, cls=cls, msg=msg + '\n' + st.deck_text + r.body[-800:], out=sha(r.body))
    bad = []
    skipped = 0
    for cell, entries, rho in multi:
        b = check_one(t4, cell, entries, rho)
        if b is None:
            skipped += 1
        else:
            bad += ['cell %d: %s' % (cell, x) for x in b]
    stats = {'elements': {multi[0][1][0][0]}}
    if skipped == len(multi):
        return verdict(True, st, out=sha(r.body), nontrivial=False, stats={'mass_fracs_atom_density': 1})
    if bad:
        return verdict(False, st, cls={'kind': 'composition', 'what': bad[0].split()[2]},
                       msg='%s\n%s\n%s' % ('\n'.join(st.data), '\n'.join(bad),
                                           r.body[r.body.find('COMPOSITION'):][:900]),
                       out=sha(r.body), stats=stats)
    return verdict(True, st, out=sha(r.body), stats=stats)


def canaries():
    st = make([(26, 56, '0.9'), (26, 54, '0.1')], '-7.8')
    v = check_state('forms', st)
    st2 = make([(26, 56, '0.9'), (26, 54, '0.1')], '-7.8')
    st2.entries = [(27, 56, '0.9'), (26, 54, '0.1')]    # reference expects cobalt: must be noticed
    return [('c10-baseline', v['ok']), ('c10-wrong-element-detected', not check_state('forms', st2)['ok'])]


def finish(agg, tier):
    if len(agg['stats'].get('elements', ())) < 118:
        raise Vacuous('not all elements exercised')
    return {'elements': len(agg['stats']['elements'])}
