"""C01 - cell regions: every point stays in the volume of the cell that owns it."""
import numpy as np

from .. import env, t4read, oracle, geomdecide, refsem
from ..deck import Deck, render_expr, holds, choose_tree, demorgan, strip_compl, fmt
from ..runner import Scn, verdict, sha, Vacuous

ID = 'C01'
DECORATE = True
LEVEL = 'model_checking'
RULE = ('E1 choice-tree enumeration of decks (expression trees with <=k leaves over signed plane '
        'literals, macrobody and facet literals, #( ) at inner nodes, #n of earlier cells, '
        'importances); a state is non-trivial when the converter wrote at least one non-virtual '
        'volume and the reference has points both inside and outside the probed cell; distinct = '
        'distinct deck text; additional scenarios beyond the small scope: slab decks of 12-130 cells, N-gon prisms (N = 12 ... 120), unions of 40-300 slabs with their complement, planes at the loci of the converter\'s helper planes, importances on data cards / fractional')
ASSUMPTIONS = [
    'MCNP/TRIPOLI-4 semantics tables of DESIGN.md section 5',
    'PEG shim replaces the third-party TatSu parser object only',
    'witness clearance 1e-6: points closer than that to a surface are not examined',
]

# reference surfaces: number -> ('plane', normal, d) with n.x + d, or rpp
PLANES = {
    1: ('px', -3.0), 2: ('px', 0.25), 3: ('px', 2.0), 4: ('py', 1.0),
    5: ('p', 1.0, 1.0, 0.0, 0.5),
    11: ('px', 0.25), 12: ('py', 1.0), 13: ('p', 1.0, 0.0, 0.0, 0.25),   # the same surfaces under other numbers
    # the loci x = 1 and x = -1 (which the converter also uses for its own helper planes), x = 1 twice
    14: ('px', 1.0), 15: ('px', -1.0), 16: ('px', 1.0),
}
RPP = (-2.0, 1.5, -1.0, 3.0, -4.0, 4.0)     # surface 6
CURVED = {7: ('so', [4.0]), 8: ('kz', [-1.0, 0.5, 1]), 9: ('cz', [2.5]), 10: ('k/x', [1.0, 0.5, -0.5, 2.0, -1])}
CURVED_REF = {n: refsem.mcnp_surface(mn, p) for n, (mn, p) in CURVED.items()}
LAT = geomdecide.lattice_points(-6.0, 6.0, 15)
SURF_CARDS = {
    1: '1 px -3', 2: '2 px 0.25', 3: '3 px 2', 4: '4 py 1', 5: '5 p 1 1 0 0.5',
    6: '6 rpp -2 1.5 -1 3 -4 4',
    11: '11 px 0.25', 12: '12 py 1', 13: '13 p 1 0 0 0.25',
    14: '14 px 1', 15: '15 px -1', 16: '16 px 1',
    7: '7 so 4', 8: '8 kz -1 0.5 1', 9: '9 cz 2.5', 10: '10 k/x 1 0.5 -0.5 2 -1',
}


def plane_nd(n):
    c = PLANES[n]
    if c[0] == 'px':
        return np.array([1.0, 0, 0]), -c[1]
    if c[0] == 'py':
        return np.array([0, 1.0, 0]), -c[1]
    if c[0] == 'pz':
        return np.array([0, 0, 1.0]), -c[1]
    return np.array(c[1:4]), -c[4]


def rpp_facets():
    lo = RPP[0::2]; hi = RPP[1::2]
    out = []
    for ax in range(3):
        n = np.zeros(3); n[ax] = 1.0
        out.append((n.copy(), -hi[ax]))       # facet 2ax+1: x - xmax  (outward +)
        out.append((-n, lo[ax]))              # facet 2ax+2: xmin - x
    return out


def ref_planes(used):
    out = []
    for s in used:
        if s == 6:
            out.extend(rpp_facets())
        elif s in CURVED_REF:
            continue
        else:
            out.append(plane_nd(s))
    return out


def make_sense(P, flip=None):
    fac = rpp_facets()

    def sense(lit):
        if isinstance(lit, tuple):
            n, d = fac[lit[2] - 1]
            v = P @ n + d > 0
        elif lit in CURVED_REF:
            v = CURVED_REF[lit].pos(P)
        elif lit == 6:
            v = np.zeros(len(P), bool)
            for n, d in fac:
                v |= P @ n + d > 0
        else:
            n, d = plane_nd(lit)
            v = P @ n + d > 0
        if flip is not None and lit == flip:
            v = ~v
        return v
    return sense


LITS4 = [1, -1, 2, -2, 3, -3, 4, -4]
LITS3 = [1, -1, 2, -2, 4, -4]
LITSD = [2, -2, 11, -11, 4, -12, 1, -13]
LITSH = [14, -14, 15, -15, 16, -16, 4, -4]
LITSC = [7, -7, 8, -8, 9, -9, 10, -10, 2, -2, 4, -4]
LITSX = [5, -5, 6, -6, ('f', 6, 1), ('f', -6, 1), ('f', 6, 4), ('f', -6, 4), 2, -2, 4, -4]
IMPS2 = [(1, 1), (1, 0), (0, 1)]
IMPS3 = [(1, 1, 1), (1, 0, 1), (0, 1, 1), (1, 1, 0), (0, 0, 1), (2, 0, 0)]


class St(Deck):
    pass


def used_surfaces(exprs):
    from ..deck import leaves
    used = set()
    for e in exprs:
        for l in leaves(e):
            used.add(abs(l[1]) if isinstance(l, tuple) else abs(l))
    return sorted(used)


def renumber_expr(t, smap, cmap):
    if isinstance(t, (int, np.integer)):
        return smap[abs(int(t))] * (1 if t > 0 else -1)
    if t[0] == 'f':
        return ('f', smap[abs(t[1])] * (1 if t[1] > 0 else -1), t[2])
    if t[0] == '#':
        return ('#', renumber_expr(t[1], smap, cmap))
    if t[0] == '^':
        return ('^', cmap[t[1]])
    return (t[0], renumber_expr(t[1], smap, cmap), renumber_expr(t[2], smap, cmap))


def finish_deck(st, cells, imps, numbering='plain', imp_style='cell'):
    """cells: list of (number, expr).  numbering='high': the same deck with surface numbers above 1000 (which
    must not be mistaken for implicit surfaces 1000*cell+surf) and sparse, unordered cell numbers; the reference
    keeps the plain numbers, only the rendered text and the expected volume ids change."""
    st.cell_exprs = dict(cells)
    st.imps = dict(zip([c for c, _ in cells], imps))
    st.used = used_surfaces([e for _, e in cells])
    smap = {s: s for s in SURF_CARDS}
    cmap = {c: c for c, _ in cells}
    if numbering == 'high':
        smap = {s: 2000 + 7 * s for s in SURF_CARDS}
        cmap = {c: v for (c, _), v in zip(cells, [731, 40, 5, 99999, 12])}
    st.cmap = cmap
    # importances on the cell cards or on an IMP data card; '-frac': every non-zero value is a fraction below 1/2
    shown = [('%g' % (imp * 0.25 if imp_style.endswith('-frac') else imp)) for imp in imps]
    for (n, e), imp in zip(cells, shown):
        kw = ' imp:n=%s' % imp if imp_style.startswith('cell') else ''
        st.cells.append('%d 0 %s%s' % (cmap[n], render_expr(renumber_expr(e, smap, cmap)), kw))
    if imp_style.startswith('card'):
        st.data.append('imp:n ' + ' '.join(shown))
    st.surfs = ['%d %s' % (smap[s], SURF_CARDS[s].split(' ', 1)[1]) for s in st.used]
    return st


def b_p2(lits, ks, compl_inner=False, free=True, renumber=False):
    def build(ch):
        st = St('c01 p2')
        e = choose_tree(ch, 'e', ks, lits, compl=compl_inner, free=free)
        if ch.choose('rootcompl', [False, True], free=free):
            e = ('#', e)
        imps = ch.choose('imps', IMPS2, free=free)
        numbering = ch.choose('numbering', ['plain', 'high'], free=free) if renumber else 'plain'
        return finish_deck(st, [(1, e), (2, ('^', 1))], imps, numbering)
    return build


def b_p3(lits, ks, free=True):
    def build(ch):
        st = St('c01 p3')
        e1 = choose_tree(ch, 'e1', ks, lits, free=free)
        e2 = choose_tree(ch, 'e2', ks, lits, free=free)
        imps = ch.choose('imps', IMPS3, free=free)
        cells = [(1, e1), (2, ('*', e2, ('^', 1))), (3, ('*', ('^', 1), ('^', 2)))]
        numbering = ch.choose('numbering', ['plain', 'high'], free=free)
        return finish_deck(st, cells, imps, numbering)
    return build


def b_p4(lits, ks, free=True):
    """cell 2 is the explicit De Morgan complement of cell 1 (no '#'), cell 3
    uses #1 #2 and must be empty."""
    def build(ch):
        st = St('c01 p4')
        e = choose_tree(ch, 'e', ks, lits, compl=True, free=free)
        imps = ch.choose('imps', IMPS2, free=free)
        cells = [(1, e), (2, demorgan(strip_compl(e)))]
        return finish_deck(st, cells, imps)
    return build


def b_nonpure(ch):
    """union whose members are all intersections that contain a union (written out or from +macrobody):
    the only shape that goes through the union helper planes"""
    st = St('c01 nonpure union')
    small = [2, -2, 4, -4]
    unions = [6] + [(':', c, d) for c in small for d in small]
    l1 = ch.choose('l1', [1, -1, 2, -3], free=True)
    u1 = ch.choose('u1', unions, free=True)
    l2 = ch.choose('l2', [3, -3, -1, 4], free=True)
    u2 = ch.choose('u2', unions, free=True)
    e = (':', ('*', l1, u1), ('*', l2, u2))
    if ch.choose('rootcompl', [False, True], free=True):
        e = ('#', e)
    imps = ch.choose('imps', IMPS2, free=True)
    return finish_deck(st, [(1, e), (2, ('^', 1))], imps)


def b_dupunion(ch):
    """unions whose non-main members are slivers between two numbers of one surface: they become patently
    empty only after de-duplication, i.e. in remove_empty_volumes"""
    st = St('c01 dup union')
    slivers = [('*', 2, -11), ('*', 11, -2), ('*', -4, 12), ('*', 13, -2), ('*', 2, -13), ('*', -12, 4)]
    mains = [('*', 1, -3), ('*', ('*', 1, -3), 4), ('*', -1, 4), 3, ('*', 2, ('*', -3, -4))]
    main = ch.choose('main', mains, free=True)
    s1 = ch.choose('sliver1', slivers, free=True)
    third = ch.choose('third', [None] + slivers[:3] + [-1, ('*', 3, 4)], free=True)
    order = ch.choose('order', ['main-first', 'sliver-first', 'main-last'], free=True)
    members = [main, s1] + ([third] if third is not None else [])
    if order == 'sliver-first':
        members = [s1, main] + members[2:]
    elif order == 'main-last':
        members = members[1:] + [main]
    e = members[0]
    for m in members[1:]:
        e = (':', e, m)
    if ch.choose('inside', [False, True], free=True):
        e = ('*', e, -5)
    imps = ch.choose('imps', IMPS2, free=True)
    return finish_deck(st, [(1, e), (2, ('^', 1))], imps)


def b_nestedcompl(ch):
    """the same cells referenced both as #n and inside #( ... #n ... ), at several nesting depths"""
    st = St('c01 nested complements')
    e1 = choose_tree(ch, 'e1', [1, 2], LITS3, free=False)
    e2 = choose_tree(ch, 'e2', [1, 2], LITS3, free=False)
    lits = [('^', 1), ('^', 2), 3, -3, 4, -4]
    t = choose_tree(ch, 't', [2, 1, 3], lits, compl=True, free=False)
    if ch.choose('t-rootcompl', [True, False]):
        t = ('#', t)
    order = ch.choose('order', ['direct-first', 'nested-first'])
    guard = ('*', ('^', 1), ('^', 2))
    e3 = ('*', guard, t) if order == 'direct-first' else ('*', t, guard)
    imps = ch.choose('imps', [(1, 1, 1, 1), (1, 0, 1, 0), (0, 1, 0, 1)])
    cells = [(1, e1), (2, ('*', e2, ('^', 1))), (3, e3),
             (4, ('*', ('*', ('^', 1), ('^', 2)), ('^', 3)))]
    style = ch.choose('imp-style', ['cell', 'card', 'card-frac', 'cell-frac'])
    return finish_deck(st, cells, imps, imp_style=style)


def b_forward(ch):
    """#n of a cell defined later in the deck; cell numbers not in card order"""
    st = St('c01 forward')
    e = choose_tree(ch, 'e', [2, 1, 3], LITS4, compl=True, free=False)
    e2 = choose_tree(ch, 'e2', [1, 2], LITS3, free=False)
    imps = ch.choose('imps', [(1, 1, 1), (1, 0, 1), (0, 1, 1), (1, 1, 0)], free=False)
    cells = [(30, ('*', ('^', 7), ('^', 12))), (7, ('*', e2, ('^', 12))), (12, e)]
    style = ch.choose('imp-style', ['cell', 'card', 'card-frac', 'cell-frac'])
    return finish_deck(st, cells, imps, imp_style=style)


def b_chain(free=False):
    """#n of a cell that itself uses #m and #( ): complement chains."""
    def build(ch):
        st = St('c01 chain')
        e1 = choose_tree(ch, 'e1', [2, 1, 3], LITS4, compl=True, free=free)
        e2 = choose_tree(ch, 'e2', [1, 2], LITS3, free=free)
        e3 = choose_tree(ch, 'e3', [1, 2], LITS3, free=free)
        imps = ch.choose('imps', [(1, 1, 1, 1), (1, 0, 1, 0), (0, 1, 0, 1)], free=free)
        cells = [(1, e1),
                 (2, ('*', ('^', 1), e2)),
                 (3, ('*', ('*', ('^', 1), ('^', 2)), e3)),
                 (4, ('*', ('*', ('^', 1), ('^', 2)), ('^', 3)))]
        return finish_deck(st, cells, imps)
    return build


def wrap_card(card, width, how):
    """the card continued over as many lines as needed (five blanks or trailing &)"""
    words = card.split(' ')
    lines, cur = [], ''
    for w in words:
        if cur and len(cur) + 1 + len(w) > width:
            lines.append(cur)
            cur = w
        else:
            cur = (cur + ' ' + w) if cur else w
    lines.append(cur)
    if how == 'amp':
        return ' &\n'.join(lines)
    return '\n     '.join(lines)


class DefaultAnswers:
    """answers every choice point with its default without recording it"""

    def choose(self, label, options, free=False):
        return list(options)[0]

    def reject(self, why=''):
        from ..explore import Inadmissible
        raise Inadmissible(why)


def b_slabs(ch, n_override=None):
    """Decks beyond the small scope of the other scenarios: N slabs along x (up to 130 cells and planes), numbers
    that cross a digit boundary, a long union, a long list of #n, cards continued over many lines, an IMP data
    card with a long repeat.  The reference is the slab index of the point."""
    st = St('c01 slabs')
    n = ch.choose('slabs', [12, 40, 100, 130], free=True) if n_override is None else n_override
    numbering = ch.choose('numbering', ['1..N', 'across-100', 'across-100000', 'descending', 'shuffled'], free=True)
    style = ch.choose('style', ['plain', 'every-3rd-by-complement', 'long-union', 'pairs-in-parentheses'], free=True)
    wrap = ch.choose('wrap', ['none', 'wrap5-70', 'amp-40', 'wrap5-30'], free=True)
    imp_style = ch.choose('imp-style', ['cell', 'card', 'card-repeat'], free=True)
    zero = ch.choose('zero-imp-every', [0, 7], free=True)
    base = {'1..N': 1, 'across-100': 95, 'across-100000': 99990, 'descending': 1, 'shuffled': 1}[numbering]
    ids = [base + i for i in range(n + 2)]
    if numbering == 'descending':
        ids = ids[::-1]
    elif numbering == 'shuffled':
        ids = [ids[(7 * i + 3) % len(ids)] for i in range(len(ids))] if np.gcd(7, len(ids)) == 1 else \
              [ids[(5 * i + 3) % len(ids)] for i in range(len(ids))]
    sid = [base + 7 + i for i in range(n + 1)]          # surface numbers (overlapping the cell numbers)
    if numbering == 'shuffled':
        sid = sid[::-1]
    xs = [-0.5 * n + 1.0 * i + (0.25 if i % 3 == 0 else 0.0) for i in range(n + 1)]
    st.surfs = ['%d px %s' % (sid[i], fmt(xs[i])) for i in range(n + 1)]
    # cells: slab k between plane k and plane k+1; the last two cells are the long union / the outside
    members = list(range(n))
    union_members = [k for k in members if style == 'long-union' and k % 2 == 1]
    cells, owner_of_slab, imps = [], {}, {}
    for k in members:
        if k in union_members:
            continue
        cid = ids[k]
        geo = '%d -%d' % (sid[k], sid[k + 1])
        if style == 'every-3rd-by-complement' and k % 3 == 2 and k >= 2 and (k - 1) not in union_members:
            # the same slab written as: right of plane k-1, left of plane k+1, not the previous cell
            geo = '%d -%d #%d' % (sid[k - 1], sid[k + 1], ids[k - 1])
        if style == 'pairs-in-parentheses':
            geo = '(%d) (-%d)' % (sid[k], sid[k + 1])
        cells.append((cid, geo))
        owner_of_slab[k] = cid
        imps[cid] = 0 if (zero and k % zero == 3) else 1
    if union_members:
        ucid = ids[n]
        cells.append((ucid, ' : '.join('(%d -%d)' % (sid[k], sid[k + 1]) for k in union_members)))
        for k in union_members:
            owner_of_slab[k] = ucid
        imps[ucid] = 1
    # the outside: not any of the cells, written as a long list of complements or by the two end planes
    ocid = ids[n + 1]
    if style == 'every-3rd-by-complement':
        cells.append((ocid, ' '.join('#%d' % c for c, _ in cells)))
    else:
        cells.append((ocid, '-%d : %d' % (sid[0], sid[n])))
    imps[ocid] = 0
    vals = [imps[c] for c, _ in cells]
    st.cells = []
    for (c, geo), v in zip(cells, vals):
        card = '%d 0 %s%s' % (c, geo, ' imp:n=%d' % v if imp_style == 'cell' else '')
        if wrap != 'none':
            card = wrap_card(card, int(wrap.split('-')[1]), 'amp' if wrap.startswith('amp') else 'wrap5')
        st.cells.append(card)
    if imp_style != 'cell':
        toks = [str(v) for v in vals]
        if imp_style == 'card-repeat':
            out, i = [], 0
            while i < len(toks):
                j = i
                while j + 1 < len(toks) and toks[j + 1] == toks[i]:
                    j += 1
                out.append(toks[i])
                if j > i:
                    out.append('%dr' % (j - i))
                i = j + 1
            toks = out
        card = 'imp:n ' + ' '.join(toks)
        st.data.append(wrap_card(card, 60, 'wrap5') if wrap != 'none' else card)
    st.slab_x = xs
    st.slab_owner = owner_of_slab
    st.slab_imps = imps
    st.outside = ocid
    return st


def b_polygon(ch):
    """a regular N-gon prism: the inside is an intersection of N half-spaces (one long MINUS list), the outside
    a union of N half-spaces (one long UNION list); N around the multiples of 50"""
    import math
    st = St('c01 polygon')
    n = ch.choose('sides', [12, 49, 50, 51, 99, 100, 101, 120], free=True)
    first = ch.choose('first-number', [1, 95, 99951], free=True)
    outside = ch.choose('outside', ['union', 'complement', 'complement-of-expression'], free=True)
    wrap = ch.choose('wrap', ['wrap5-70', 'amp-60', 'none'], free=True)
    ids = [first + i for i in range(n)]
    normals = []
    for i in range(n):
        a = 2.0 * math.pi * (i + 0.3) / n
        nx, ny = math.cos(a), math.sin(a)
        normals.append((nx, ny))
        st.surfs.append('%d p %s %s 0 %s' % (ids[i], fmt(round(nx, 12)), fmt(round(ny, 12)), fmt(5.0 + 0.01 * (i % 7))))
    st.poly = [(round(nx, 12), round(ny, 12), 5.0 + 0.01 * (i % 7)) for i, (nx, ny) in enumerate(normals)]
    inside = ' '.join('-%d' % i for i in ids)
    c1, c2 = first + 1000, first + 1001
    if outside == 'union':
        out = ' : '.join('%d' % i for i in ids)
    elif outside == 'complement':
        out = '#%d' % c1
    else:
        out = '#(%s)' % inside
    cards = ['%d 0 %s imp:n=1' % (c1, inside), '%d 0 %s imp:n=1' % (c2, out)]
    if wrap != 'none':
        cards = [wrap_card(c, int(wrap.split('-')[1]), 'amp' if wrap.startswith('amp') else 'wrap5') for c in cards]
    st.cells = cards
    st.poly_cells = (c1, c2)
    return st


def check_polygon(scn, st):
    r = env.run(st.deck_text, st.options)
    if not r.ok:
        return verdict(False, st, cls={'kind': 'exception', 'exc': r.exc_type, 'scenario': 'polygon'},
                       msg='conversion of a valid deck failed: %s\n%s' % (r.brief(), st.deck_text[:1500]),
                       out='err:' + r.exc_type)
    t4 = t4read.parse(r.t4)
    cls, msg = oracle.structural_cls(t4, st.options)
    if cls:
        return verdict(False, st, cls=cls, msg=msg, out=sha(r.body))
    N = np.array([(a, b, 0.0) for a, b, d in st.poly]); D = np.array([d for a, b, d in st.poly])
    pts = [(0.0, 0.0, 0.0), (0.5, -0.3, 7.0)]
    for (a, b, d) in st.poly:
        for t in (-0.02, 0.004, 0.5, 3.0):       # just inside, just outside (beyond one facet only), far outside
            pts.append((a * (d + t), b * (d + t), 0.25))
    P = np.array(pts)
    val = P @ N.T - D
    clear = (np.abs(val) > 1e-6).all(axis=1)
    P, val = P[clear], val[clear]
    ins = (val < 0).all(axis=1)
    c1, c2 = st.poly_cells
    exp = np.array([c1 if i else c2 for i in ins], object)
    bad = oracle.compare_owner(t4, P, exp)
    stats = {'witness_points': len(P), 'polygon_decks': 1}
    if bad:
        return verdict(False, st, cls={'kind': 'membership', 'scenario': 'polygon'},
                       msg='\n'.join(bad[:8]) + '\n' + st.deck_text[:600], out=sha(r.body), stats=stats)
    return verdict(True, st, out=sha(r.body), nontrivial=bool(ins.any() and (~ins).any()), stats=stats)


def b_bigunion(ch):
    """one cell is the union of M disjoint slabs (M up to 300), its neighbour is #n of it inside a box"""
    st = St('c01 big union')
    m = ch.choose('members', [40, 128, 129, 256, 257, 300], free=True)
    how = ch.choose('complement', ['#n', '#( )', 'explicit'], free=True)
    wrap = ch.choose('wrap', ['wrap5-70', 'amp-60'], free=True)
    first = ch.choose('first-number', [1, 99900], free=True)
    sid = [first + i for i in range(2 * m)]
    xs = [0.5 * i for i in range(2 * m)]
    st.surfs = ['%d px %s' % (sid[i], fmt(xs[i])) for i in range(2 * m)]
    lo, hi = first + 2 * m + 5, first + 2 * m + 6
    st.surfs += ['%d px -3' % lo, '%d px %s' % (hi, fmt(xs[-1] + 3.0))]
    members = ['(%d -%d)' % (sid[2 * k], sid[2 * k + 1]) for k in range(m)]
    union = ' : '.join(members)
    c1, c2, c3 = first + 3000, first + 3001, first + 3002
    if how == '#n':
        rest = '#%d %d -%d' % (c1, lo, hi)
    elif how == '#( )':
        rest = '#(%s) %d -%d' % (union, lo, hi)
    else:
        gaps = ['(%d -%d)' % (lo, sid[0])] + ['(%d -%d)' % (sid[2 * k + 1], sid[2 * k + 2]) for k in range(m - 1)] + \
               ['(%d -%d)' % (sid[-1], hi)]
        rest = ' : '.join(gaps)
    cards = ['%d 0 %s imp:n=1' % (c1, union), '%d 0 %s imp:n=1' % (c2, rest), '%d 0 -%d : %d imp:n=0' % (c3, lo, hi)]
    width = int(wrap.split('-')[1])
    st.cells = [wrap_card(c, width, 'amp' if wrap.startswith('amp') else 'wrap5') for c in cards]
    # reuse the slab oracle: slab k of the list of intervals
    bounds = [-3.0] + xs + [xs[-1] + 3.0]
    st.slab_x = bounds
    st.slab_owner = {k: (c2 if k % 2 == 0 else c1) for k in range(len(bounds) - 1)}
    st.slab_imps = {c1: 1, c2: 1, c3: 0}
    st.outside = c3
    return st


def check_slabs(scn, st):
    r = env.run(st.deck_text, st.options)
    if not r.ok:
        return verdict(False, st, cls={'kind': 'exception', 'exc': r.exc_type, 'scenario': 'slabs'},
                       msg='conversion of a valid deck failed: %s\n%s' % (r.brief(), st.deck_text[:1500]),
                       out='err:' + r.exc_type)
    t4 = t4read.parse(r.t4)
    cls, msg = oracle.structural_cls(t4, st.options)
    if cls:
        return verdict(False, st, cls=cls, msg=msg, out=sha(r.body))
    xs = st.slab_x
    pts, exp = [], []
    for k in range(len(xs) - 1):
        for y, z in ((0.0, 0.0), (3.5, -2.0)):
            for t in (0.2, 0.8):
                pts.append((xs[k] + t * (xs[k + 1] - xs[k]), y, z))
                c = st.slab_owner[k]
                exp.append(c if st.slab_imps[c] != 0 else None)
    for x in (xs[0] - 1.0, xs[-1] + 2.0):
        pts.append((x, 0.3, 0.1))
        exp.append(None)
    P = np.array(pts)
    bad = oracle.compare_owner(t4, P, np.array(exp, object))
    want = sorted(c for c, v in st.slab_imps.items() if v != 0)
    got = sorted(t4.nonvirtual())
    if got != want:
        bad = ['non-virtual volumes %s..., expected %s...' % (got[:12], want[:12])] + list(bad)
    stats = {'witness_points': len(P), 'slab_decks': 1}
    if bad:
        return verdict(False, st, cls={'kind': 'membership', 'scenario': 'slabs'},
                       msg='\n'.join(bad[:8]) + '\n' + st.deck_text[:1200], out=sha(r.body), stats=stats)
    return verdict(True, st, out=sha(r.body), nontrivial=True, stats=stats)


def scenarios(tier):
    if tier == 'quick':
        return [
            Scn('slabs', b_slabs, None, None,
                'beyond the small scope: 12 / 40 / 130 slabs, numbers across a digit boundary, long unions and #n '
                'lists, cards over many lines, IMP data card with long repeats'),
            Scn('polygon', b_polygon, None, None,
                'N-gon prisms, N = 12 ... 120 around the multiples of 50: one intersection / one union of N half-spaces'),
            Scn('big-union', b_bigunion, None, None, 'a union of 40 ... 300 disjoint slabs and its complement'),
            Scn('p2-k3', b_p2(LITS4, [1, 2, 3]), None, None, 'full product, 4 planes, k<=3'),
            Scn('p2-mixed-k2', b_p2(LITSX, [1, 2], compl_inner=True, renumber=True), None, None,
                'full product, oblique plane + rpp whole/facets, k<=2'),
            Scn('p2-k4-dev2', b_p2(LITS4, [4], compl_inner=True, free=False), 2, 3,
                'k=4 with inner #( ), deviation-bounded'),
            Scn('p3-k2', b_p3(LITS3, [1, 2]), None, None, 'three cells, k<=2 per cell'),
            Scn('p2-curved-k2', b_p2(LITSC, [1, 2], compl_inner=True), None, None,
                'sphere, cylinder, one-sheet cones (surface collections) and planes, k<=2; witnesses + lattice'),
            Scn('p2-dup-k3', b_p2(LITSD, [1, 2, 3], renumber=True), None, None,
                'one surface under several numbers (slivers that become patently empty after de-duplication)'),
            Scn('p2-helper-k3', b_p2(LITSH, [1, 2, 3]), None, None,
                'planes x = 1 (under two numbers) and x = -1: the loci of the converter\'s own helper planes for unions'),
            Scn('nested-compl', b_nestedcompl, 3, 4, '#n and #( ... #n ... ) of the same cells'),
            Scn('forward-ref', b_forward, 3, 4, '#n of cells defined later; numbers not in card order'),
            Scn('dup-union', b_dupunion, None, None, 'unions with members that are empty only after de-duplication'),
            Scn('nonpure-union', b_nonpure, None, None, 'unions of intersections that contain unions (helper planes)'),
            Scn('p4-k3', b_p4(LITS4, [1, 2, 3], free=False), 2, 3, 'explicit De Morgan partner'),
            Scn('chain', b_chain(), 2, 3, 'complement chains #n of #m'),
        ]
    return [
        Scn('slabs', b_slabs, None, None,
            'beyond the small scope: 12 / 40 / 130 slabs, numbers across a digit boundary, long unions and #n '
            'lists, cards over many lines, IMP data card with long repeats'),
        Scn('polygon', b_polygon, None, None,
            'N-gon prisms, N = 12 ... 120 around the multiples of 50: one intersection / one union of N half-spaces'),
        Scn('big-union', b_bigunion, None, None, 'a union of 40 ... 300 disjoint slabs and its complement'),
        Scn('p2-k4', b_p2(LITS4, [1, 2, 3, 4]), None, None, 'full product, 4 planes, k<=4'),
        Scn('p2-mixed-k3', b_p2(LITSX, [1, 2, 3], compl_inner=True), None, None,
            'full product, oblique plane + rpp whole/facets, k<=3 with inner #( )'),
        Scn('p2-k5-dev3', b_p2(LITS4, [5], compl_inner=True, free=False), 3, 3,
            'k=5 with inner #( ), deviation-bounded'),
        Scn('p3-k3', b_p3(LITS3, [1, 2, 3], free=False), 4, 4, 'three cells, k<=3 per cell'),
        Scn('p2-curved-k3', b_p2(LITSC, [1, 2, 3], compl_inner=False), None, None,
            'sphere, cylinder, one-sheet cones and planes, k<=3; witnesses + lattice'),
        Scn('p3-k2', b_p3(LITS4, [1, 2]), None, None, 'three cells, k<=2 per cell'),
        Scn('nonpure-union', b_nonpure, None, None, 'unions of intersections that contain unions (helper planes)'),
        Scn('dup-union', b_dupunion, None, None, 'unions with members that are empty only after de-duplication'),
        Scn('p2-dup-k4', b_p2(LITSD, [1, 2, 3, 4]), None, None,
            'one surface under several numbers (slivers that become patently empty after de-duplication)'),
        Scn('p4-k3', b_p4(LITS4, [1, 2, 3]), None, None, 'explicit De Morgan partner, full'),
        Scn('chain', b_chain(), 4, 4, 'complement chains #n of #m'),
    ]


def reference_owner(st, P, flip=None):
    sense = make_sense(P, flip)
    owner = np.zeros(len(P), int)
    cnt = np.zeros(len(P), int)
    for n, e in st.cell_exprs.items():
        m = holds(e, sense, st.cell_exprs)
        cnt += m
        owner[m] = n
    return owner, cnt


def evaluate(st, t4, flip=None):
    curved = any(s in CURVED_REF for s in st.used)
    P, info = oracle.probe_points(t4, ref_planes(st.used), curved=curved, lattice=LAT)
    if curved:
        clear = np.ones(len(P), bool)
        for s in st.used:
            if s in CURVED_REF:
                for f, d in CURVED_REF[s].comps:
                    v = f(P)
                    clear &= np.abs(v) > 1e-7 * max(1.0, np.abs(v).max())
        P = P[clear]
        info['complete'] = 'lattice'
    owner, cnt = reference_owner(st, P, flip)
    return P, info, owner, cnt


def check_state(scn, st):
    if hasattr(st, 'slab_x'):
        return check_slabs(scn, st)
    if hasattr(st, 'poly'):
        return check_polygon(scn, st)
    r = env.run(st.deck_text, st.options)
    if not r.ok:
        # acceptable only if the reference has no point in a cell of non-zero importance
        P = np.vstack([geomdecide.witnesses(ref_planes(st.used)), LAT])
        owner, cnt = reference_owner(st, P)
        live = np.array([st.imps.get(o, 0) != 0 for o in owner]) & (cnt == 1)
        if not live.any():
            return verdict(True, st, out='err:' + r.exc_type, nontrivial=False,
                           stats={'empty_model_errors': 1})
        return verdict(False, st, cls={'kind': 'exception', 'exc': r.exc_type},
                       msg='conversion of a valid deck failed: ' + r.brief(), out='err:' + r.exc_type)
    t4 = t4read.parse(r.t4)
    cls, msg = oracle.structural_cls(t4, st.options)
    if cls:
        return verdict(False, st, cls=cls, msg=msg, out=sha(r.body))
    P, info, owner, cnt = evaluate(st, t4)
    if not info['complete']:
        return verdict(False, st, cls={'kind': 'non-plane-surface'},
                       msg='a plane-only deck produced a curved surface', out=sha(r.body))
    if (cnt != 1).any():
        raise RuntimeError('generated deck does not partition space (harness defect)')
    expected = np.array([int(st.cmap[o]) if st.imps[o] != 0 else None for o in owner], object)
    bad = oracle.compare_owner(t4, P, expected)
    stats = {'witness_points': len(P), 'planes': info['planes']}
    nontriv = bool(t4.nonvirtual()) and len(set(owner)) > 1
    if bad:
        return verdict(False, st, cls={'kind': 'membership', 'scenario': scn.split('-')[0]},
                       msg='\n'.join(bad) + '\n--- output ---\n' + r.body[-1500:],
                       out=sha(r.body), stats=stats)
    return verdict(True, st, out=sha(r.body), nontrivial=nontriv, stats=stats)


def canaries():
    """The comparator must notice a reference with one sense flipped and a
    reference that swaps two cells."""
    from ..explore import Chooser
    st = b_p2(LITS4, [1, 2, 3])(Chooser((2, 0, 1, 0, 0, 3, 5, 0, 0)))
    r = env.run(st.deck_text, st.options)
    t4 = t4read.parse(r.t4)
    out = []
    P, info, owner, cnt = evaluate(st, t4)
    exp = np.array([int(st.cmap[o]) if st.imps[o] != 0 else None for o in owner], object)
    out.append(('c01-agree-baseline', not oracle.compare_owner(t4, P, exp)))
    used = [s for s in st.used]
    P, info, owner, cnt = evaluate(st, t4, flip=used[0])
    exp = np.array([int(o) if st.imps[o] != 0 else None for o in owner], object)
    out.append(('c01-flipped-sense-detected', bool(oracle.compare_owner(t4, P, exp))))
    P, info, owner, cnt = evaluate(st, t4)
    exp = np.array([(3 - int(o)) for o in owner], object)
    out.append(('c01-swapped-cells-detected', bool(oracle.compare_owner(t4, P, exp))))
    # the witness generator must realise every cell of a generic arrangement
    rng = np.random.default_rng(7)
    pl = [(rng.normal(size=3), rng.normal()) for _ in range(6)]
    W = geomdecide.witnesses(pl, eps=1e-4)
    out.append(('witness-generic-6-planes',
                len(geomdecide.sign_vectors(W, pl)) == geomdecide.expected_cells_generic(6)))
    return out


def finish(agg, tier):
    if agg['stats'].get('witness_points', 0) < 1000:
        raise Vacuous('fewer than 1000 witness points evaluated')
    if len(agg['outs']) < 50:
        raise Vacuous('fewer than 50 distinct outputs')
    return {}
