"""C12 - exactly the zero-importance cells are left out."""
import re

import numpy as np

from .. import env, t4read, oracle
from ..deck import Deck
from ..runner import Scn, verdict, sha, Vacuous
from . import c06

ID = 'C12'
DECORATE = True
LEVEL = 'model_checking'
RULE = ('E1 enumeration: 3-5 level-0 cells (numbers not in card order); per cell the importance source in '
        '{IMP:N=v, IMP:N,P=v, IMP:N=v IMP:P=w, IMP:P=w IMP:N=v, none}; data cards imp:n (and optionally imp:p) '
        'written expanded or with nR / nM / nI shorthand; values in {0, 1, 2, 0.25, 0.5, 1e-10, 2.5e-11} (fractional and tiny importances are non-zero); one of the other MCNP cell parameters (VOL, UNC, NONU, TMP, PWT, EXT, FCL, ELPT, WWN, DXC, PD, COSY, BFLCL) on the first card; oracle: set of VOLU ids = cells '
        'whose maximum importance over particle types is non-zero, NOTE line lists exactly the others; '
        'non-trivial = at least one cell dropped and one kept; distinct = deck text; also: LIKE copies taking data-card entries, data-card-only decks with two particle types, decks of 12-130 cells, nI interpolation of every length 3 ... 170, second data card for a symbol-named particle (| / #); a universe cell of importance 0 (keyword or data-card position) inside a filled level-0 cell, compared with the same deck at importance 1')
ASSUMPTIONS = ['importance of a cell = maximum over the particle types given (property statement)',
               'decks in which every cell has zero importance are not generated (nothing to convert)']

NUMS = [10, 5, 30, 2, 17]
VALS = [1, 0, 2, 0.25, 1e-10]
PVALS = [0, 1, 2, 0.5, 2.5e-11]


class St(Deck):
    pass


def compress(vals, mode):
    """Shorthand spelling of a list of non-negative numbers."""
    toks = [fmtnum(v) for v in vals]
    if mode == 'expanded':
        return toks
    out = []
    i = 0
    n = len(vals)
    while i < n:
        v = vals[i]
        if mode in ('R', 'all') and out:
            j = i
            while j < n and vals[j] == vals[i - 1]:
                j += 1
            if j > i:
                k = j - i
                out.append('r' if k == 1 and mode == 'all' else '%dr' % k)
                i = j
                continue
        if mode in ('M', 'all') and out and i >= 1 and vals[i - 1] != 0 and v == 2 * vals[i - 1]:
            out.append('2m')
            i += 1
            continue
        if mode in ('I', 'all') and out and i + 1 < n and vals[i - 1] + 2 == vals[i + 1] and v == vals[i - 1] + 1:
            out.append('1i'); out.append(fmtnum(vals[i + 1]))
            i += 2
            continue
        if mode in ('I', 'all') and out and i + 1 < n and vals[i - 1] - 2 == vals[i + 1] and v == vals[i - 1] - 1:
            out.append('i'); out.append(fmtnum(vals[i + 1]))
            i += 2
            continue
        out.append(fmtnum(v))
        i += 1
    return out


SOURCES = ['imp:n=%(n)s', 'none', 'imp:n,p=%(n)s', 'imp:n=%(n)s imp:p=%(p)s', 'imp:p=%(p)s imp:n=%(n)s',
           'IMP:N %(n)s', 'imp:n=%(n)s $ imp:n=7',
           # the cell is a copy of the previous one moved by one slab width; only the listed particle types change
           'like:imp:n=%(n)s', 'like:imp:n,p=%(n)s', 'like:imp:n=%(n)s imp:p=%(p)s', 'like:imp:p,n=%(n)s',
           'like:',
           # a copy of a cell whose importances are on the data cards: it takes the entries at its own position
           'like-card']


OTHER_KW = ['', 'vol=1', 'unc:n=1', 'nonu=1', 'tmp=2.53e-8', 'pwt=1', 'ext:n=0 fcl:n=0 elpt:n=0.1',
            'wwn1:n=0.5 dxc1:n=1 pd1=0.5', 'cosy=1 bflcl=0', 'VOL 2 TMP 2.53E-8']


def fmtnum(v):
    return '%g' % v


def per_particle(text, n, p):
    """importance per particle type given by the IMP keywords in `text`"""
    out = {}
    for m in re.finditer(r'imp:([a-z,]+)[ =]([0-9.]+)', text.split('$')[0].lower()):
        for pt in m.group(1).split(','):
            out[pt] = float(m.group(2))
    return out


def build_n(ncells):
    def build(ch):
        st = St('c12 importances')
        xs = [-4.0 + 2.0 * i for i in range(ncells + 1)]
        st.surfs = ['%d px %g' % (i + 1, x) for i, x in enumerate(xs)]
        src = [ch.choose('src%d' % i, SOURCES) for i in range(ncells)]
        nvals = [ch.choose('n%d' % i, VALS) if src[i] != 'like:' else 0 for i in range(ncells)]
        # the photon value is a choice point only where it can matter
        pvals = [ch.choose('p%d' % i, PVALS) if ('%(p)' in src[i] or src[i] in ('none', 'like-card')) else 0
                 for i in range(ncells)]
        st.expected = {}
        any_none = False
        use_p_card = ch.choose('imp:p-card', [False, True])
        # the second data card may be for a particle type named by a symbol (MCNP6: | mu-, / pi+, # heavy ions)
        part2 = ch.choose('second-particle', ['p', '|', 'h', '/', '#', 'e']) if use_p_card else 'p'
        dicts = []
        for i in range(ncells):
            num = NUMS[i]
            s = src[i]
            card = '%d 0 %d -%d' % (num, i + 1, i + 2)
            if s == 'none':
                any_none = True
                d = {'n': nvals[i]}
                if use_p_card:
                    d['p'] = pvals[i]
            elif s == 'like-card':
                if i == 0 or src[i - 1] != 'none':
                    ch.reject('the copied cell must have its importances on the data cards too')
                any_none = True
                card = '%d like %d but trcl=(2 0 0)' % (num, NUMS[i - 1])
                d = {'n': nvals[i]}
                if use_p_card:
                    d['p'] = pvals[i]
            elif s.startswith('like:'):
                if i == 0 or src[i - 1] in ('none', 'like-card') or src[i - 1].startswith('like:'):
                    ch.reject('LIKE needs a preceding cell with cell-card importances')
                but = s[5:] % dict(n=fmtnum(nvals[i]), p=fmtnum(pvals[i]))
                card = '%d like %d but trcl=(2 0 0) %s' % (num, NUMS[i - 1], but)
                d = dict(dicts[i - 1])
                d.update(per_particle(but, nvals[i], pvals[i]))
            else:
                text = s % dict(n=fmtnum(nvals[i]), p=fmtnum(pvals[i]))
                card += ' ' + text
                d = per_particle(text, nvals[i], pvals[i])
            dicts.append(d)
            st.cells.append(card)
            st.expected[num] = max(d.values())
        # another cell parameter on the first card: it must not change which cells are converted
        extra = ch.choose('other-keyword', OTHER_KW)
        if extra and not st.cells[0].split()[1] == 'like':
            st.cells[0] = st.cells[0] + ' ' + extra if '$' not in st.cells[0] else st.cells[0].replace(' $', ' ' + extra + ' $', 1)
        mode = ch.choose('shorthand', ['expanded', 'R', 'M', 'I', 'all'])
        # a cell of an (unused) universe between the level-0 cells: it occupies a position on the IMP data cards
        upos = ch.choose('universe-cell-at', [None, 1, 0, 2])
        dn, dp = list(nvals), list(pvals)
        st.filled = None
        if upos is not None:
            # optionally one of the level-0 cells is FILLed with that universe (its pieces get generated numbers)
            fidx = ch.choose('filled-cell', [None, 0, 1, 2])
            if fidx is not None and not src[fidx].startswith('like') and not (
                    fidx + 1 < ncells and src[fidx + 1].startswith('like')):
                head = '%d 0 %d -%d' % (NUMS[fidx], fidx + 1, fidx + 2)
                assert st.cells[fidx].startswith(head)
                st.cells[fidx] = head + ' fill=9' + st.cells[fidx][len(head):]     # before any $ comment
                st.filled = NUMS[fidx]
            # the importance of a cell that is NOT at level 0 decides nothing: a universe cell of importance 0
            # (keyword, or its position on the data cards) leaves every level-0 cell, the pieces of the filled
            # one included, as they are with importance 1 (differential oracle in check_state)
            uz = ch.choose('universe-cell-importance-0', [None, 0, 1]) if st.filled is not None else None
            ui = [0 if uz == k else 1 for k in (0, 1)]
            st.cells.insert(upos, '77 0 -%d u=9 imp:n=%d' % (ncells + 2, ui[0]) if not any_none else '77 0 -%d u=9' % (ncells + 2))
            st.cells.insert(upos + 1, '78 0 %d u=9 imp:n=%d' % (ncells + 2, ui[1]) if not any_none else '78 0 %d u=9' % (ncells + 2))
            st.surfs.append('%d so 1' % (ncells + 2))
            dn1, dp1 = list(dn), list(dp)
            dn1[upos:upos] = [1, 1]; dp1[upos:upos] = [1, 1]
            dn[upos:upos] = ui; dp[upos:upos] = ui
            st.uzero = uz
        if any_none:
            st.data.append('imp:n ' + ' '.join(compress(dn, mode)))
            if use_p_card:
                st.data.append('imp:%s ' % part2 + ' '.join(compress(dp, mode)))
        if getattr(st, 'uzero', None) is not None:
            ref = St(st.title)
            ref.cells = [re.sub(r'^(7[78] 0 -?\d+ u=9 imp:n=)0', r'\g<1>1', c) for c in st.cells]
            ref.surfs = list(st.surfs)
            if any_none:
                ref.data.append('imp:n ' + ' '.join(compress(dn1, mode)))
                if use_p_card:
                    ref.data.append('imp:%s ' % part2 + ' '.join(compress(dp1, mode)))
            st.ref_text = ref.deck_text
            assert st.ref_text != st.deck_text
        if not any(st.expected.values()):
            ch.reject()
        # the note does not depend on which blocks of the output are switched off
        st.options = ch.choose('output-switches', [[], ['--skip-boundary-conditions'], ['--skip-compositions', '--skip-geomcomp'],
                                                   ['--skip-compositions', '--skip-geomcomp', '--skip-boundary-conditions']])
        return st
    return build


def b_many(ch):
    """12 / 40 / 130 cells (generator of C01 'slabs'): numbers across digit boundaries, long IMP data cards with
    repeats over several lines, every 7th cell of importance 0"""
    from . import c01
    st = c01.b_slabs(ch)
    st.expected = dict(st.slab_imps)
    st.filled = None
    return st


def b_interp(ch):
    """every length 3 ... 170 of an IMP data card written '<first> (m-2)i 0': the interpolated importances are
    non-zero except the last one, whatever the rounding of the intermediate values"""
    m = ch.choose('cells', list(range(3, 171)), free=True)
    first = ch.choose('first', ['1', '2', '10', '0.007', '3.5'], free=True)
    tail = ch.choose('tail', ['0', '0 0', '0 1'], free=True)
    ntail = len(tail.split())
    st = St('c12 interpolated importances')
    ncell = m + ntail - 1
    st.surfs = ['%d px %d' % (i + 1, i) for i in range(ncell + 1)]
    st.cells = ['%d 0 %d -%d' % (100 + i, i + 1, i + 2) for i in range(ncell)]
    st.data = ['imp:n %s %di %s' % (first, m - 2, tail)]
    st.expected = {100 + i: 1 for i in range(m - 1)}
    for j, v in enumerate(tail.split()):
        st.expected[100 + m - 1 + j] = int(v)
    st.filled = None
    return st


def scenarios(tier):
    q = tier == 'quick'
    return [Scn('interp-lengths', b_interp, None, None, 'IMP data cards with nI interpolation down to 0, every length 3 ... 170'),
            Scn('many-cells', b_many, None, None, 'decks of 12 / 40 / 130 cells, IMP cards with long repeats')] + [Scn('cells3', build_n(3), 3 if q else None, None, '3 cells'),
            Scn('datacards3', (lambda ch: build_n(3)(c06.Preset(ch, {'src0': 1, 'src1': 1, 'src2': 1, 'imp:p-card': 1}))),
                3 if q else 5, 5, '3 cells whose importances all come from an IMP:N and an IMP:P data card'),
            Scn('datacards4', (lambda ch: build_n(4)(c06.Preset(ch, {'src0': 1, 'src1': 1, 'src2': 1, 'src3': 1,
                                                                         'imp:p-card': 1}))),
                2 if q else 4, 4, '4 cells whose importances all come from an IMP:N and an IMP:P data card'),
            Scn('cells4', build_n(4), 3 if q else 4, 4, '4 cells'),
            Scn('cells5', build_n(5), 3 if q else 4, 4, '5 cells')]


def check_state(scn, st, corrupt=False):
    r = env.run(st.deck_text, st.options)
    if not r.ok:
        return verdict(False, st, cls={'kind': 'exception', 'exc': r.exc_type},
                       msg='conversion failed: %s\n%s' % (r.brief(), st.deck_text), out='err:' + r.exc_type)
    t4 = t4read.parse(r.t4)
    cls, msg = oracle.structural_cls(t4, st.options)
    if cls:
        return verdict(False, st, cls=cls, msg=msg, out=sha(r.body))
    expected = dict(st.expected)
    if corrupt:
        k = next(iter(expected))
        expected[k] = 0 if expected[k] else 1
    want = sorted(n for n, v in expected.items() if v != 0 and n != getattr(st, 'filled', None))
    dropped = sorted(n for n, v in expected.items() if v == 0)
    got = sorted(v for v in t4.nonvirtual() if not t4.provenance(v))
    bad = []
    if got != want:
        bad.append('VOLU ids %s, expected %s' % (got, want))
    # the pieces of a filled level-0 cell carry (filler, container) in their comment
    filled = getattr(st, 'filled', None)
    containers = sorted(set(t4.provenance(v)[-1][1] for v in t4.nonvirtual() if t4.provenance(v)))
    want_cont = [filled] if filled is not None and expected[filled] != 0 else []
    if containers != want_cont:
        bad.append('volumes generated for filled level-0 cells %s, expected %s' % (containers, want_cont))
    # the end-of-run note: the paragraph that starts with NOTE, whatever its wording and layout
    m = re.search(r'\bNOTE\b(.*?)(\n[ \t]*\n|\Z)', r.stdout, re.S)
    noted = sorted(int(x) for x in re.findall(r'(?<![\w.])\d+(?![\w.])', m.group(1))) if m else []
    if getattr(st, 'uzero', None) is not None:
        # the property speaks of level-0 cells only: the unchanged converter also names a universe cell of
        # importance 0 in the note (its pieces are written all the same) - not demanded, not forbidden
        noted = [n for n in noted if n not in (77, 78)]
    if noted != dropped:
        bad.append('NOTE lists %s, expected %s' % (noted, dropped))
    if getattr(st, 'uzero', None) is not None and not bad:
        # same deck with every universe cell at importance 1: same volumes, same pieces, same note
        ref = env.run(st.ref_text, st.options)
        if not ref.ok:
            bad.append('the deck with importance 1 on the universe cells fails: %s' % ref.brief())
        else:
            t4r = t4read.parse(ref.t4)
            sig = lambda t: sorted((v, tuple(map(tuple, t.provenance(v)))) for v in t.nonvirtual())
            if sig(t4) != sig(t4r):
                bad.append('importance 0 on a universe cell changes the volumes: %s, with importance 1 %s' % (sig(t4), sig(t4r)))
    if bad:
        return verdict(False, st, cls={'kind': 'importance'}, msg='%s\n%s' % ('\n'.join(bad), st.deck_text),
                       out=sha(r.body))
    return verdict(True, st, out=sha(r.body), nontrivial=bool(want and dropped),
                   stats={'cells': len(expected)})


def canaries():
    from ..explore import Chooser
    from ..explore import PresetChooser
    st = build_n(3)(PresetChooser({'n1': 1}))
    return [('c12-baseline', check_state('cells3', st)['ok']),
            ('c12-wrong-expectation-detected', not check_state('cells3', st, corrupt=True)['ok'])]


def finish(agg, tier):
    return {}
