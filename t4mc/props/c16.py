"""C16 - reflecting and white surfaces become boundary conditions on the right surfaces."""
import numpy as np

from .. import env, t4read, oracle, geomdecide, refsem
from ..deck import Deck
from ..runner import Scn, verdict, sha, Vacuous

ID = 'C16'
DECORATE = True
LEVEL = 'model_checking'
RULE = ('E1 enumeration (complete product): flag in {none, *, +} on a plane and on a sphere that bound converted '
        'cells, on a plane used only by an importance-0 cell, on an unused plane and on a plane of a universe '
        'that fills several containers; an identical flagged twin; an identical unflagged '
        'copy of the flagged plane with a lower / higher / both numbers; a flagged macrobody; with and without '
        '--skip-deduplication; oracle: BOUNDARY_CONDITION block has exactly one ALL_COMPLETE REFLECTION|COSINUS '
        'entry per flagged surface bounding a converted cell, its id is a SURF of the file with the flagged '
        'surface\'s polynomial, no other entries, declared count right; flagged macrobody -> error; '
        'non-trivial = at least one flag; distinct = deck text + options; also: three coincident cards in every order with the flag on each, flagged twin, flagged plane inside a universe used twice, 12-1100 flagged planes; --skip-compositions / --skip-geomcomp crossed with the flags')
ASSUMPTIONS = ['* = reflecting -> REFLECTION, + = white -> COSINUS',
               'a flagged surface that bounds no converted cell needs no entry; an entry naming a surface absent '
               'from the file is a violation']

KIND = {'*': 'REFLECTION', '+': 'COSINUS'}


def build(ch):
    st = Deck('c16 boundary conditions')
    f20 = ch.choose('flag20', ['', '*', '+'], free=True)
    f50 = ch.choose('flag50', ['', '*', '+'], free=True)
    f60 = ch.choose('flag60', ['', '*'])
    f70 = ch.choose('flag70', ['', '+'])
    copy = ch.choose('copy', ['none', 'lower', 'higher', 'both', 'macro-lower', 'flagged-twin'], free=True)
    macro_twin = ch.choose('macro-twin', [False, True])
    copy_used = ch.choose('copy-used', [False, True]) if copy != 'none' else False
    f55 = ch.choose('flag55', ['', '*', '+'])
    kind50 = ch.choose('kind50', ['so', 'sq', 'sq-tr', 'so-tr', 'gq-tr', 's-tr'], free=True)
    tr20 = ch.choose('tr-on-20', [False, True])
    macro = ch.choose('macro-flag', ['', '*', '+'])
    skip = ch.choose('skip-dedup', [False, True], free=True)
    st.cells = ['1 0 10 -20 30 -40 imp:n=1',
                '2 0 -50 (-10:20:-30:40) 55 imp:n=1',
                '3 0 50 -60 imp:n=0',
                '4 0 60 imp:n=0',
                '5 0 -55 -50 (-10:20:-30:40) imp:n=1']
    # surface 20 optionally carries a TR number (pure translation chosen so that the locus is still x = 3)
    s20 = '%s20 9 px 1' % f20 if tr20 else '%s20 px 3' % f20
    # the outer flagged surface 50: several kinds, optionally carrying a TR number (a small displacement)
    card50 = {'so': 'so 8', 'sq': 'sq 1 1 1 0 0 0 -64 0 0 0', 'sq-tr': '8 sq 1 1 0.8 0 0 0 -64 0 0 0',
              'so-tr': '8 so 8', 'gq-tr': '8 gq 1 1 1 0 0 0 0 0 0 -64', 's-tr': '8 s 0.1 0 0 8'}[kind50]
    st.surfs = ['10 px -3', s20, '30 py -3', '40 py 3', '%s50 %s' % (f50, card50), '%s60 pz 9' % f60,
                '%s70 pz -9' % f70, '%s55 k/z 0 6 -1 0.25 1' % f55]
    st.data = []
    if tr20:
        st.data.append('tr9 2 0 0')
    if kind50.endswith('-tr'):
        st.data.append('tr8 0.2 -0.1 0.3 0 1 0 -1 0 0 0 0 1')
    m8 = refsem.Motion((0.2, -0.1, 0.3), refsem.rotation([0, 0, 1], 90.0).T)
    base50 = {'so': ('so', [8.0]), 'sq': ('sq', [1, 1, 1, 0, 0, 0, -64, 0, 0, 0]),
              'sq-tr': ('sq', [1, 1, 0.8, 0, 0, 0, -64, 0, 0, 0]), 'so-tr': ('so', [8.0]),
              'gq-tr': ('gq', [1, 1, 1, 0, 0, 0, 0, 0, 0, -64]), 's-tr': ('s', [0.1, 0, 0, 8.0])}[kind50]
    ref50 = refsem.mcnp_surface(*base50)
    st.ref50 = ref50.moved(m8) if kind50.endswith('-tr') else ref50
    if copy == 'macro-lower':
        # an unflagged macrobody with a lower number whose first facet is the plane x = 3
        st.surfs.append('15 rpp -9 3 -3 3 -30 30')
    if macro_twin:
        # a plain surface with a lower number that coincides with the first facet of the (possibly flagged) macrobody 80
        st.surfs.append('8 px 1')
    if copy in ('lower', 'both'):
        st.surfs.append('15 px 3')
    if copy in ('higher', 'both'):
        st.surfs.append('25 px 3')
    st.twin = False
    if copy == 'flagged-twin':
        # a second card for the same plane carrying the same flag, used by a converted cell: the two flagged
        # surfaces are one surface of the written geometry (unless de-duplication is skipped)
        st.surfs.append('%s25 px 3' % f20)
        st.cells[1] = '2 0 -50 (-10:25:-30:40) 55 imp:n=1'
        st.twin = True
    st.flag_on = 20
    if copy == 'both':
        # three cards for the plane x = 3 (numbers 15, 20, 25): any card order, the flag on any one of them; the
        # flagged one is used by a converted cell
        import itertools
        order = ch.choose('triple-order', list(itertools.permutations((15, 20, 25))))
        st.flag_on = ch.choose('flag-on', [20, 15, 25])
        st.surfs = [c for c in st.surfs if c.lstrip('*+').split()[0] not in ('15', '20', '25')]
        cards = {n: '%s%d px 3' % (f20 if n == st.flag_on else '', n) for n in (15, 20, 25)}
        if tr20:
            cards[20] = '%s20 9 px 1' % (f20 if st.flag_on == 20 else '')
        st.surfs[1:1] = [cards[n] for n in order]
        if st.flag_on != 20:
            st.cells[1] = '2 0 -50 (-10:%d:-30:40) 55 imp:n=1' % st.flag_on
            copy_used = False
    if copy_used and copy == 'flagged-twin':
        pass
    elif copy_used and copy == 'macro-lower':
        st.cells[1] = '2 0 -50 (-10:15.1:-30:40) 55 imp:n=1'
    elif copy_used:
        c = 15 if copy in ('lower', 'both') else 25
        st.cells[1] = '2 0 -50 (-10:%d:-30:40) 55 imp:n=1' % c
    if macro:
        st.surfs.append('%s80 rpp -1 1 -1 1 -1 1' % macro)
    st.flags = {20: f20, 50: f50, 55: f55}
    st.unused_flags = {60: f60, 70: f70}
    st.macro = macro
    # switching off other blocks of the output (compositions, GEOMCOMP) leaves the boundary conditions alone
    st.options = (['--skip-deduplication'] if skip else []) + ch.choose(
        'other-blocks-off', [[], ['--skip-compositions'], ['--skip-geomcomp'], ['--skip-compositions', '--skip-geomcomp']])
    return st


def build_universe(ch):
    """a flagged plane inside a universe that fills two containers; the second FILL transformation leaves the
    plane where it is, so both copies are one surface of the written geometry"""
    st = Deck('c16 flagged surface inside a universe')
    f21 = ch.choose('flag21', ['*', '+', ''], free=True)
    f50 = ch.choose('flag50', ['', '*', '+'], free=True)
    tr2 = ch.choose('filltr2', ['(0 6 0)', '(0 6 0 1 0 0 0 -1 0 0 0 -1)', '(0 6 2)', '*(0 6 0 0 90 90 90 180 90 90 90 180)'],
                    free=True)
    third = ch.choose('third-container', [False, True], free=True)
    skip = ch.choose('skip-dedup', [False, True], free=True)
    star = '*' if tr2.startswith('*') else ''
    st.cells = ['1 0 10 -20 30 -40 fill=1 imp:n=1',
                '2 0 10 -20 40 -45 %sfill=1 %s imp:n=1' % (star, tr2.lstrip('*')),
                '3 0 -50 (-10:20:-30:%d) imp:n=1' % (46 if third else 45),
                '4 0 50 imp:n=0',
                '11 1 -2.7 -21 u=1 imp:n=1',
                '12 0 21 u=1 imp:n=1']
    if third:
        st.cells.insert(2, '5 0 10 -20 45 -46 fill=1 (0 12 0) imp:n=1')
    st.surfs = ['10 px -3', '20 px 3', '30 py -3', '40 py 3', '45 py 9', '46 py 15', '%s50 so 40' % f50,
                '%s21 px 0.5' % f21]
    st.data = ['m1 13027 1']
    st.flags = {21: f21, 50: f50}
    st.unused_flags = {}
    st.macro = ''
    st.twin = False
    st.ref50 = refsem.mcnp_surface('so', [40.0])
    st.copies = {21: 3 if third else 2}
    # switching off other blocks of the output (compositions, GEOMCOMP) leaves the boundary conditions alone
    st.options = (['--skip-deduplication'] if skip else []) + ch.choose(
        'other-blocks-off', [[], ['--skip-compositions'], ['--skip-geomcomp'], ['--skip-compositions', '--skip-geomcomp']])
    return st


def build_many(ch):
    """beyond the small scope: the slab decks of C01 (12 ... 130 planes) with every 3rd / every plane flagged"""
    from . import c01
    if ch.choose('very-many', [False, True], free=True):
        # more than a thousand boundary conditions in one file (one deck per flag pattern)
        st = c01.b_slabs(c01.DefaultAnswers(), n_override=1100)
    else:
        st = c01.b_slabs(ch)
    every = ch.choose('flag-every', [3, 1, 10], free=True)
    kinds = ch.choose('flag-kinds', ['*', '+', 'alternating'], free=True)
    st.flagged = {}
    surfs = []
    for i, card in enumerate(st.surfs):
        if i % every == 0:
            fl = kinds if kinds != 'alternating' else '*+'[(i // every) % 2]
            st.flagged[i] = fl
            card = fl + card
        surfs.append(card)
    st.surfs = surfs
    st.macro = ''
    st.unused_flags = {}
    return st


def check_many(st):
    r = env.run(st.deck_text, st.options)
    if not r.ok:
        return verdict(False, st, cls={'kind': 'exception', 'exc': r.exc_type}, msg='conversion failed: ' + r.brief(),
                       out='err:' + r.exc_type)
    t4 = t4read.parse(r.t4)
    cls, msg = oracle.structural_cls(t4, st.options)
    if cls:
        return verdict(False, st, cls=cls, msg=msg, out=sha(r.body))
    xs = st.slab_x
    n = len(xs) - 1

    def live(k):
        return 0 <= k < n and st.slab_imps[st.slab_owner[k]] != 0
    want = {}
    for i, fl in st.flagged.items():
        if live(i - 1) or live(i):
            want[round(xs[i], 9)] = KIND[fl]
    got = {}
    bad = []
    for kind, sid in t4.bcs:
        k2, p, tr = t4.surfs[sid]
        if k2 != 'PLANEX' and not (k2 == 'PLANE' and abs(p[1]) + abs(p[2]) < 1e-12):
            bad.append('entry %s %s is not a plane x = const' % (kind, sid)); continue
        x = p[0] if k2 == 'PLANEX' else -p[3] / p[0]
        x = round(x, 9)
        if x in got:
            bad.append('two entries on the plane x = %s' % x)
        got[x] = kind
    for x, kind in want.items():
        if got.get(x) != kind:
            bad.append('flagged plane x = %s: entry %s, expected %s' % (x, got.get(x), kind))
    for x in got:
        if x not in want:
            bad.append('entry on x = %s which is not a flagged plane bounding a converted cell' % x)
    if bad:
        return verdict(False, st, cls={'kind': 'boundary', 'options': 'many'}, msg='\n'.join(bad[:8]) + '\n' + st.deck_text[:800],
                       out=sha(r.body))
    return verdict(True, st, out=sha(r.body), nontrivial=bool(want), stats={'flags': len(want)})


REF = {21: refsem.mcnp_surface('px', [0.5]), 20: refsem.mcnp_surface('px', [3.0]), 50: refsem.mcnp_surface('so', [8.0]),
       55: refsem.mcnp_surface('k/z', [0.0, 6.0, -1.0, 0.25])}


def scenarios(tier):
    return [Scn('flags', build, 2 if tier == 'quick' else 3, 3,
                'flags on the two bounding surfaces x copies x kinds x de-duplication: complete product; the other '
                'choices (further flagged surfaces, TR, macrobodies) deviation-bounded'),
            Scn('many', build_many, 1, 2, 'decks of 12 ... 130 planes with every 3rd / every / every 10th plane flagged'),
            Scn('universe', build_universe, None, None,
                'flagged plane inside a universe filled into two or three containers by transformations that leave '
                'the plane in place: complete product')]


def check_state(scn, st, corrupt=False):
    if hasattr(st, 'slab_x'):
        return check_many(st)
    r = env.run(st.deck_text, st.options)
    if st.macro:
        if r.ok:
            return verdict(False, st, cls={'kind': 'flagged-macrobody-accepted'},
                           msg='a %s flag on a macrobody was accepted\n%s' % (st.macro, st.deck_text), out=sha(r.body))
        return verdict(True, st, out='err:' + r.exc_type, stats={'macro_rejected': 1})
    if not r.ok:
        return verdict(False, st, cls={'kind': 'exception', 'exc': r.exc_type},
                       msg='conversion failed: %s\n%s' % (r.brief(), st.deck_text), out='err:' + r.exc_type)
    t4 = t4read.parse(r.t4)
    cls, msg = oracle.structural_cls(t4, st.options)
    if cls:
        cls = dict(cls, flagged_unused=bool(any(st.unused_flags.values())),
                   options=' '.join(st.options))
        return verdict(False, st, cls=cls, msg=msg + '\n' + st.deck_text + r.body[r.body.find('ENDG'):],
                       out=sha(r.body))
    bad = []
    entries = list(t4.bcs)
    used = [False] * len(entries)
    flags = dict(st.flags)
    if corrupt:
        flags[20] = {'': '*', '*': '+', '+': ''}[flags[20]]
    for s, fl in flags.items():
        if not fl:
            continue
        hits = []
        for i, (kind, sid) in enumerate(entries):
            if sid not in t4.surfs:
                continue
            f, deg = oracle.t4_surface_fn(t4, sid)
            g, gdeg = (st.ref50 if s == 50 else REF[s]).comps[0]
            if geomdecide.identify(f, g, max(deg, gdeg)) is not None:
                hits.append(i)
        good = [i for i in hits if entries[i][0] == KIND[fl]]
        nodedup = '--skip-deduplication' in st.options
        nmax = 2 if (s == 20 and getattr(st, 'twin', False) and nodedup) else 1
        if nodedup:
            # without de-duplication every copy of a universe surface (one per filled cell of the universe
            # and container) is a surface of its own: distinct ids, right locus and kind, at least one
            nmax = 99 if s in getattr(st, 'copies', {}) else nmax
        ids = [entries[i][1] for i in hits]
        if not 1 <= len(hits) <= nmax or len(good) != len(hits) or len(set(ids)) != len(ids):
            bad.append('flagged surface %s%d: %d entries on its locus, %d of kind %s'
                       % (fl, s, len(hits), len(good), KIND[fl]))
        for i in hits:
            used[i] = True
    for i, u in enumerate(used):
        if not u:
            bad.append('entry %s %s corresponds to no flagged surface that bounds a converted cell'
                       % entries[i])
    nflag = sum(1 for f in flags.values() if f)
    if bad:
        return verdict(False, st, cls={'kind': 'boundary', 'options': ' '.join(st.options)},
                       msg='%s\n%s\n%s' % ('\n'.join(bad), st.deck_text, r.body[r.body.find('ENDG'):]),
                       out=sha(r.body))
    return verdict(True, st, out=sha(r.body), nontrivial=nflag > 0, stats={'flags': nflag})


def canaries():
    from ..explore import Chooser
    from ..explore import PresetChooser
    st = build(PresetChooser({'flag20': 1, 'flag50': 2}))
    return [('c16-baseline', check_state('flags', st)['ok']),
            ('c16-wrong-kind-detected', not check_state('flags', st, corrupt=True)['ok'])]


def finish(agg, tier):
    return {}
