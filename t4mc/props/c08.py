"""C08 - every written file is structurally valid TRIPOLI-4 input."""
import importlib

import numpy as np

from .. import env, t4read, oracle
from ..deck import Deck
from ..runner import Scn, verdict, sha, Vacuous

ID = 'C08'
DECORATE = ['interleave']
LEVEL = 'model_checking'
RULE = ('E1 enumeration: (a) a dedicated deck family aimed at the interleavings of pruning, de-duplication, '
        'caching and inlining - patently empty cells (s -s) at level 0, as filler inside a universe that is / '
        'is not inlined, shared by two containers, complement of a lattice cell, duplicated surface cards, '
        'flagged surfaces that are unused or de-duplicated away, a material in atom / mass fractions used at '
        'a mass / atom density - x 2^2 inlining flags x --max-inline-score in '
        '{default, 0, 1e9} x --skip-deduplication x --skip-compositions / --skip-geomcomp / '
        '--skip-boundary-conditions; (b) the states of the generators of C01 (incl. the decks of up to 130 cells and the N-gon prisms), C05, C10, C06, C07, C09, C13, C15, C16 '
        '(reduced bounds), passed through the structural report only; oracle: independent reader - every id '
        'defined once, every reference resolved, every count equal to the items that follow, no surface on '
        'both sides of a volume, every numeric field finite, GEOMCOMP partitions the non-virtual volumes, '
        'COMPOSITION count right; non-trivial = file with at least one volume; distinct = deck text + options')
ASSUMPTIONS = ['TRIPOLI-4 input conventions of DESIGN.md section 5 (reader written independently of the writer)']


def b_interleave(ch):
    st = Deck('c08 interleavings')
    empty0 = ch.choose('empty-level0', ['none', '1 -1', '-1 1 5', '(1 -1):(5 -5)'])
    efill = ch.choose('empty-filler', ['none', '21 -21', '-21 21 22', 'only-empty'])
    shared = ch.choose('shared-filler', [True, False])
    tr11 = ch.choose('tr11', ['(6 0 0)', '', '(6 0 0 0 1 0 -1 0 0 0 0 1)'])
    latcompl = ch.choose('lattice-complement', [False, True])
    dup = ch.choose('duplicate-surfaces', [False, True])
    flag = ch.choose('flag', ['none', 'unused', 'dedup-lower', 'dedup-higher', 'used'])
    nested = ch.choose('nested-empty', [False, True])
    # material 2 given in atom or mass fractions, used at a mass or at an atom density
    m2form = ch.choose('m2-form', ['atom/mass-rho', 'mass/mass-rho', 'mass/atom-rho', 'atom/atom-rho'])
    rho2 = '-7.8' if m2form.endswith('mass-rho') else '0.06'
    fl = {'none': '', 'unused': '*', 'dedup-lower': '*', 'dedup-higher': '+', 'used': '*'}[flag]
    cells = ['10 0 1 -2 3 -4 fill=1 imp:n=1']
    if shared:
        cells.append('11 0 6 -7 3 -4 fill=1 %s imp:n=1' % tr11)
    else:
        cells.append('11 2 %s 6 -7 3 -4 imp:n=1' % rho2)
    if empty0 != 'none':
        cells.append('12 1 -2.7 %s imp:n=1' % empty0)
    rest = '(-1:2:-3:4) (-6:7:-3:4) -9'
    if dup:
        rest = '(-1:8:-3:4) (-6:7:-3:4) -9'
    cells.append('19 0 %s imp:n=1' % rest)
    cells.append('99 0 9 imp:n=0')
    # universe 1
    if efill == 'only-empty':
        cells.append('31 1 -2.7 21 -21 u=1 imp:n=1')
    else:
        cells.append('31 1 -2.7 -21 u=1 imp:n=1')
        if efill != 'none':
            cells.append('32 2 %s %s u=1 imp:n=1' % (rho2, efill))
        if nested:
            cells.append('33 0 21 fill=2 u=1 imp:n=1')
            cells.append('41 1 -2.7 -22 u=2 imp:n=1')
            cells.append('42 2 %s 22 -22 u=2 imp:n=1' % rho2)
            cells.append('43 0 22 u=2 imp:n=1')
        else:
            cells.append('33 0 21 u=1 imp:n=1')
    if latcompl:
        cells.append('50 0 -31 32 -33 34 lat=1 u=5 fill=0:0 0:0 5 imp:n=1')
        cells.append('51 0 #50 u=5 imp:n=1')
        cells.append('52 0 -35 fill=5 imp:n=1')
    surfs = ['1 px -4', '2 px 4', '3 py -4', '4 py 4', '5 pz 0', '6 px 5', '7 px 13', '9 so 40',
             '21 px 0.5', '22 py 0.25', '31 px 1', '32 px -1', '33 py 1', '34 py -1', '35 s 0 20 0 3']
    if dup:
        surfs.append('8 px 4')
    if flag == 'unused':
        surfs.append('%s60 pz 30' % fl)
    elif flag == 'dedup-lower':
        surfs[1] = '%s2 px 4' % fl        # flagged surface is the lower number
        if not dup:
            surfs.append('8 px 4')
    elif flag == 'dedup-higher':
        if not dup:
            surfs.append('%s8 px 4' % fl)
        else:
            surfs[-1] = '%s8 px 4' % fl
    elif flag == 'used':
        surfs[7] = '%s9 so 40' % fl
    st.cells, st.surfs = cells, surfs
    st.data = ['m1 13027 1', 'm2 26056 -0.9 26054 -0.1' if m2form.startswith('mass') else 'm2 26056 0.9 26054 0.1']
    opts = []
    if ch.choose('inline-filling', [False, True], free=True):
        opts.append('--always-inline-filling')
    if ch.choose('inline-filled', [False, True], free=True):
        opts.append('--always-inline-filled')
    sc = ch.choose('score', ['default', '0', '1e9'], free=True)
    if sc != 'default':
        opts += ['--max-inline-score', sc]
    if ch.choose('skip-dedup', [False, True], free=True):
        opts.append('--skip-deduplication')
    sk = ch.choose('skip-sections', ['none', '--skip-compositions', '--skip-geomcomp', '--skip-boundary-conditions',
                                     'all'])
    if sk == 'all':
        opts += ['--skip-compositions', '--skip-geomcomp', '--skip-boundary-conditions']
    elif sk != 'none':
        opts.append(sk)
    st.options = opts
    st.features = dict(empty0=empty0 != 'none', efill=efill, latcompl=latcompl, flag=flag)
    return st


def b_verymany(ch):
    """beyond the small scope: one composition with 999 ... 2100 volumes, 1000+ surfaces (slab decks of C01)"""
    from . import c01
    n = ch.choose('cells', [999, 1000, 1001, 1050, 2000, 2100], free=True)
    st = c01.b_slabs(c01.DefaultAnswers(), n_override=n)
    st.features = {}
    return st


OTHERS = [('c01', 'slabs', None), ('c01', 'polygon', None), ('c10', 'two-materials', None), ('c10', 'forms', 3), ('c01', 'p2-mixed-k2', 0), ('c01', 'chain', 2), ('c05', 'trees', 2), ('c06', 'shapes', 2),
          ('c06', 'arrays-2d', 0), ('c07', 'hex', 2), ('c09', 'level0', 2), ('c09', 'like', None),
          ('c13', 'stress', None), ('c15', 'like1', 3), ('c15', 'like2', 2), ('c16', 'flags', 1)]

_foreign = {}


def foreign_build(modname, scn):
    key = (modname, scn)
    if key not in _foreign:
        mod = importlib.import_module('t4mc.props.' + modname)
        _foreign[key] = {s.name: s for s in mod.scenarios('quick')}[scn].build
    return _foreign[key]


def scenarios(tier):
    q = tier == 'quick'
    out = [Scn('interleave', b_interleave, 3 if q else 5, 5,
               'deck choices deviation-bounded x all inlining / dedup configurations (free)')]
    out.append(Scn('very-many', b_verymany, None, None, 'decks of 999 ... 2100 cells in one composition'))
    for modname, scn, bound in OTHERS:
        b = bound if q else (None if bound is None else bound + 1)
        out.append(Scn('%s:%s' % (modname, scn), (lambda ch, m=modname, s=scn: foreign_build(m, s)(ch)),
                       b, b, 'states of the %s generator, structural oracle only' % modname.upper()))
    return out


def check_state(scn, st, corrupt=None):
    r = env.run(st.deck_text, list(getattr(st, 'options', []) or []))
    if not r.ok:
        if scn != 'interleave':
            # other generators contain decks that are expected to fail (e.g. flagged macrobodies)
            return verdict(True, st, out='err:' + r.exc_type, nontrivial=False, stats={'conversion_errors': 1})
        feats = getattr(st, 'features', {})
        if feats.get('efill') == 'only-empty' or r.exc_type in ('ValueError',) and 'empty' in (r.exc_msg or ''):
            # nothing to convert in a container: stopping is not a structural defect of a written file
            return verdict(True, st, out='err:' + r.exc_type, nontrivial=False, stats={'conversion_errors': 1})
        return verdict(False, st, cls={'kind': 'exception', 'exc': r.exc_type},
                       msg='conversion failed: %s\n%s\n%s' % (r.brief(), st.options, st.deck_text),
                       out='err:' + r.exc_type)
    text = r.t4
    if corrupt:
        text = text.replace('ENDV', 'UNION 1 987654 ENDV', 1)
    t4 = t4read.parse(text)
    oracle.structural_cls(t4, list(getattr(st, 'options', []) or []))     # adds missing-section problems
    stats = {'volumes': len(t4.vols), 'surfaces': len(t4.surfs), 'files': 1}
    if t4.problems:
        rules = sorted(set(p[0] for p in t4.problems))
        feats = getattr(st, 'features', {})
        cls = {'kind': 'structural', 'rule': rules[0]}
        if scn == 'interleave':
            cls['empty_filler'] = feats.get('efill') not in (None, 'none')
            cls['lattice_complement'] = bool(feats.get('latcompl'))
        return verdict(False, st, cls=cls,
                       msg='%s\noptions %s\n%s\n%s' % ('\n'.join('%s: %s' % p for p in t4.problems[:6]),
                                                       getattr(st, 'options', []), st.deck_text, r.body[:3000]),
                       out=sha(r.body), stats=stats)
    return verdict(True, st, out=sha(r.body), nontrivial=bool(t4.vols), stats=stats)


def canaries():
    from ..explore import Chooser
    st = b_interleave(Chooser(()))
    return [('c08-baseline', check_state('interleave', st)['ok']),
            ('c08-dangling-reference-detected', not check_state('interleave', st, corrupt=True)['ok'])]


def finish(agg, tier):
    if agg['stats'].get('files', 0) < 1000:
        raise Vacuous('fewer than 1000 files examined')
    return {'files_examined': agg['stats'].get('files', 0)}
