"""C06 - rectangular lattices: element position, index order and fill array."""
import itertools

import re
import numpy as np

from .. import env, t4read, oracle, hier, refsem, geomdecide
from ..hier import HDeck, HCell, Tr
from ..runner import Scn, verdict, sha, Vacuous
from . import c03

ID = 'C06'
DECORATE = True
LEVEL = 'model_checking'
RULE = ('E1 enumeration of LAT=1 decks: unit cell 1D/2D/3D, orthogonal or skew, by planes or by -rpp, '
        'listing order inside each pair and order of the pairs, index ranges incl. negative / degenerate / '
        'trailing trivial ones, ALL fill arrays over {0, own universe, u2, u3} for the small sizes, FILL=n '
        'with --lattice, fill transformation (none, translation, 90deg rotation; inline, number, starred), '
        'lattice cell TRCL, container larger than / equal to / cutting the declared range, inlining options; oracle: reference '
        'lattice semantics (element = unit cell + i a1 + j a2 + k a3, positive index across the first-listed '
        'surface of the pair, array read first-index-fastest, universe frame = translate(L_ijk) o T_fill) at '
        'complete plane-arrangement witnesses; non-trivial = at least two different owners; distinct = '
        'deck text + options; also: card order, parentheses / complemented unions around pairs of the listing, one plane of a pair with the opposite normal, lattices of 4-40 elements, inlining options, FILL=<own universe> by number, unit cells written on two / four / six facets of an RPP')
ASSUMPTIONS = [
    'MCNP lattice conventions as stated in the property (DESIGN 5)',
    'for lattice levels the provenance comment carries synthetic element ids: the lowest-level filler cell, '
    'the outermost container and the composition are compared',
]


def base_vectors(pairs):
    """pairs: list of ((n, d1), (n, d2)) for the first- and second-listed plane of each pair, written with a
    common normal n (n.x = d).  a_m crosses the first-listed plane: n_m.a_m = d1 - d2, n_i.a_m = 0 (i != m),
    a_m in the span of the normals."""
    N = np.array([p[0][0] for p in pairs], float)
    out = []
    for m, ((n, d1), (_, d2)) in enumerate(pairs):
        rhs = np.zeros(len(pairs)); rhs[m] = d1 - d2
        out.append(np.linalg.pinv(N) @ rhs)
    return out


MATS = {1: '13027 1', 2: '26056 1', 3: '1001 2 8016 1', 4: '6012 1'}


def plane_card(n, d):
    n = [float(x) for x in n]
    if n == [1.0, 0, 0]:
        return 'px', [d]
    if n == [0, 1.0, 0]:
        return 'py', [d]
    if n == [0, 0, 1.0]:
        return 'pz', [d]
    return 'p', list(n) + [d]


RANGES = [(0, 1), (0, 0), (-1, 1), (-2, -1), (1, 2), (2, 2), (-1, -1)]
UNIVS = [0, 1, 2, 3]


def make_deck(ch, dims, skew, by_rpp, arr_mode, ranges=None):
    d = HDeck('c06 lattice')
    # unit cell: x in [-1, 1], y in [-0.5, 1.5], z in [-2, 1]; skew: y-planes replaced by x+2y = const
    normals = [(1.0, 0.0, 0.0), (0.0, 1.0, 0.0), (0.0, 0.0, 1.0)]
    if skew:
        normals[1] = (0.5, 1.0, 0.0)
    lohi = [(-1.0, 1.0), (-0.5, 1.5), (-2.0, 1.0)]
    pairs, lits = [], []
    snum = 50
    order = list(range(dims))
    if dims > 1 and ch.choose('pair-order', [False, True]):
        order = order[::-1] if dims == 2 else [1, 2, 0]
    if by_rpp:
        b = c03.body_rpp([lohi[0][0], lohi[0][1], lohi[1][0], lohi[1][1], lohi[2][0], lohi[2][1]])
        d.refsurfs[50] = refsem.RefSurf(b.facets, b.inside)
        d.surfcards[50] = b.card
        if by_rpp == 'facets':
            # the unit cell is written on the facets of the body, two per dimension (50.1 50.2 = x, 50.3 50.4 = y,
            # 50.5 50.6 = z): the facets that are not listed do not bound the elements
            lits = []
            for ax in range(dims):
                n = np.array(normals[ax])
                for j, (nn, off) in enumerate(((n, lohi[ax][1]), (-n, -lohi[ax][0]))):
                    d.refsurfs[5001 + 2 * ax + j] = refsem.mcnp_surface('p', list(nn) + [off])
                    lits.append(-(5001 + 2 * ax + j))
                pairs.append(((n, lohi[ax][1]), (n, lohi[ax][0])))
            expr = hier.group_pairs(lits, 'flat')
            d.facet_lattice = True
        else:
            expr = -50
            for ax in range(3):
                n = np.array(normals[ax])
                pairs.append(((n, lohi[ax][1]), (n, lohi[ax][0])))
            dims = 3
    else:
        # one plane of a pair may be written with the opposite normal (P -a -b -c -d, sense on the cell card
        # changed accordingly): the two planes of the pair then have opposite orientations
        negated = ch.choose('negated-normal', ['none', 'pair0-low', 'pair0-high', 'pair1-low'])
        for k_ax, ax in enumerate(order):
            lo, hi = lohi[ax]
            n = np.array(normals[ax])
            hi_first = ch.choose('hi-first%d' % ax, [True, False])
            s_hi, s_lo = snum, snum + 1
            snum += 2
            neg_hi = negated == 'pair%d-high' % k_ax
            neg_lo = negated == 'pair%d-low' % k_ax
            if neg_hi:
                d.add_surface(s_hi, 'p', list(-n) + [-hi])
            else:
                mn, p = plane_card(n, hi); d.add_surface(s_hi, mn, p)
            if neg_lo:
                d.add_surface(s_lo, 'p', list(-n) + [-lo])
            else:
                mn, p = plane_card(n, lo); d.add_surface(s_lo, mn, p)
            l_hi = s_hi if neg_hi else -s_hi          # the side of the plane on which the unit cell lies
            l_lo = -s_lo if neg_lo else s_lo
            if hi_first:
                lits += [l_hi, l_lo]
                pairs.append(((n, hi), (n, lo)))
            else:
                lits += [l_lo, l_hi]
                pairs.append(((n, lo), (n, hi)))
        expr = hier.group_pairs(lits, ch.choose('grouping', ['flat', 'pairs', 'complement']))
    base = base_vectors(pairs)
    # ranges
    rng = [ch.choose('range%d' % k, ranges or RANGES) for k in range(dims)]
    ntriv = 0
    if dims < 3:
        ntriv = ch.choose('trailing-trivial', [0, 1, 2][:4 - dims])
    rng_card = rng + [(0, 0)] * ntriv
    sizes = [hi - lo + 1 for lo, hi in rng]
    nel = int(np.prod(sizes))
    lat = HCell(20, expr, mat=4, rho='-1.5', u=1, lat=1)
    lat.base = base
    lat.ranges = rng_card
    if arr_mode == 'single':
        uni = ch.choose('fill-univ', [2, 1, 3])     # 1: every element is the lattice cell itself (its own material)
        lat.array = [uni] * nel
        lat.fill = uni
        lat.single = True
    else:
        if arr_mode == 'all':
            lat.array = [ch.choose('a%d' % i, [2, 0, 1, 3], free=True) for i in range(nel)]
        else:
            lat.array = [ch.choose('a%d' % i, [2, 3, 0, 1][(i % 4):] + [2, 3, 0, 1][:(i % 4)]) for i in range(nel)]
        lat.single = False
    # fill transformation
    ft = ch.choose('filltr', ['none', 't', 'rz90', 'rz90-number', 'rz90-star'])
    if ft != 'none':
        m = refsem.Motion((0.25, -0.25, 0.0)) if ft == 't' else refsem.Motion(
            (0.25, -0.25, 0.0), refsem.rotation([0, 0, 1], 90.0).T)
        if ft == 'rz90-number':
            d.trcards[7] = (m, False); lat.filltr = Tr(m, 'number', 7)
        elif ft == 'rz90-star':
            lat.filltr = Tr(m, 'star')
        else:
            lat.filltr = Tr(m, 'inline3' if ft == 't' else 'inline')
    tl = ch.choose('lat-trcl', ['none', 't', 'rz90'])
    if tl != 'none':
        m = refsem.Motion((0.5, 0.25, 0.0)) if tl == 't' else refsem.Motion(
            (0.5, 0.25, 0.0), refsem.rotation([0, 0, 1], 90.0).T)
        d.trcards[8] = (m, False); lat.trcl = Tr(m, 'number', 8)
    # container
    cont = ch.choose('container', ['large', 'cut', 'large-z'])
    if cont == 'large':
        box = [-9.0, 9.0, -9.0, 9.0]
    elif cont == 'cut':
        box = [-1.6, 2.4, -1.2, 2.9]
    else:
        box = [-9.0, 9.0, -9.0, 9.0]
    d.add_surface(1, 'px', [box[0]]); d.add_surface(2, 'px', [box[1]])
    d.add_surface(3, 'py', [box[2]]); d.add_surface(4, 'py', [box[3]])
    e10 = ('*', ('*', 1, -2), ('*', 3, -4))
    if cont == 'large-z' or dims == 3:
        d.add_surface(5, 'pz', [-7.5]); d.add_surface(6, 'pz', [6.5])
        e10 = ('*', e10, ('*', 5, -6))
    inter = ch.choose('intermediate-universe', ['none', 'plain', 't', 'rz90'])
    if inter == 'none':
        d.add_cell(HCell(10, e10, fill=1))
    else:
        # container -> universe 4 -> lattice universe 1: the lattice sits at depth 2
        c10 = HCell(10, e10, fill=4)
        if inter == 't':
            c10.filltr = Tr(refsem.Motion((0.5, -0.25, 0.0)), 'inline3')
        elif inter == 'rz90':
            m4 = refsem.Motion((0.5, -0.25, 0.0), refsem.rotation([0, 0, 1], 90.0).T)
            d.trcards[6] = (m4, False); c10.filltr = Tr(m4, 'number', 6)
        d.add_cell(c10)
        d.add_surface(61, 'px', [3.3])
        d.add_cell(HCell(40, -61, fill=1, u=4))
        d.add_cell(HCell(41, 61, mat=2, rho='-7.8', u=4))
    # optionally a second lattice: a LIKE 20 BUT copy moved by a TRCL into its own container, with its own
    # --lattice ranges when the fill is a single universe
    replica = ch.choose('replica', ['none', 'like'])
    if replica == 'like':
        m2 = refsem.Motion((30.0, 0.0, 0.0))
        lat2 = HCell(21, expr, mat=4, rho='-1.5', u=6, lat=1)
        lat2.base = base
        lat2.trcl = Tr(m2, 'inline3')
        lat2.filltr = lat.filltr
        lat2.fill = lat.fill
        lat2.single = lat.single
        if arr_mode == 'single':
            rng2 = [(lo - 1, hi) if k == 0 else (lo, hi) for k, (lo, hi) in enumerate(rng)] + [(0, 0)] * ntriv
            lat2.ranges = rng2
            n2 = int(np.prod([hi - lo + 1 for lo, hi in rng2]))
            lat2.array = [lat.array[0]] * n2
        else:
            lat2.ranges = lat.ranges
            lat2.array = list(lat.array)
        d.add_surface(11, 'px', [30.0 + box[0]]); d.add_surface(12, 'px', [30.0 + box[1]])
        e11 = ('*', ('*', 11, -12), ('*', 3, -4))
        if cont == 'large-z' or dims == 3:
            e11 = ('*', e11, ('*', 5, -6))
        d.add_cell(HCell(11, e11, fill=6))
        d.add_cell(HCell(19, ('*', ('^', 10), ('^', 11)), imp=ch.choose('imp19', [1, 0])))
        d.add_cell(lat)
        d.add_cell(lat2)
    else:
        d.add_cell(HCell(19, ('^', 10), imp=ch.choose('imp19', [1, 0])))
        d.add_cell(lat)
    # filler universes (asymmetric about the element)
    d.add_surface(41, 'px', [0.3]); d.add_surface(42, 'py', [0.2])
    # the universes vary in all three directions (a spurious displacement along any axis must be visible)
    d.add_surface(43, 'pz', [0.4]); d.add_surface(44, 'pz', [-0.6])
    d.add_cell(HCell(31, -41, mat=1, rho='-2.7', u=2))
    d.add_cell(HCell(32, ('*', 41, -43), mat=2, rho='-7.8', u=2))
    d.add_cell(HCell(35, ('*', 41, 43), mat=3, rho='-1.0', u=2))
    d.add_cell(HCell(33, -42, mat=3, rho='-1.0', u=3))
    d.add_cell(HCell(34, ('*', 42, 44), mat=1, rho='-2.7', u=3))
    d.add_cell(HCell(36, ('*', 42, -44), mat=2, rho='-7.8', u=3))
    d.mats = dict(MATS)
    kwo = ch.choose('keyword-order', [None, ['imp', 'fill', 'lat', 'u', 'trcl'], ['trcl', 'lat', 'imp', 'u', 'fill'],
                                      ['fill', 'u', 'trcl', 'imp', 'lat']])
    for c in d.hcells:
        c.kw_order = kwo
    d.card_order = ch.choose('card-order', ['given', 'interleaved', 'reversed'])
    d.finish()
    if getattr(d, 'facet_lattice', False):
        d.cells = [re.sub(r'\b500([1-6])\b', lambda m_: '50.%s' % m_.group(1), c) if re.match(r'2[01] ', c) else c
                   for c in d.cells]
    if replica == 'like':
        d.cells = ['21 like 20 but trcl=(30 0 0) u=6' if c.startswith('21 ') else c for c in d.cells]
    if arr_mode == 'single':
        # FILL=n on the card, ranges on the command line
        d.options = ['--lattice', '20,' + ','.join('%d:%d' % r for r in rng_card)]
        if replica == 'like':
            d.options += ['--lattice', '21,' + ','.join('%d:%d' % r for r in lat2.ranges)]
    # the element volumes must not depend on how cell definitions are inlined
    d.options = list(getattr(d, 'options', None) or []) + ch.choose('inlining', [
        [], ['--always-inline-filling'], ['--always-inline-filled'],
        ['--always-inline-filling', '--always-inline-filled'], ['--max-inline-score', '0']])
    return d


def b_arrays2d(ch):
    """2D orthogonal cell, 0:1 x 0:1, ALL arrays over {0, own, u2, u3}"""
    return make_deck(ch, 2, False, False, 'all')


class Preset:
    """Chooser wrapper that answers some labels with a fixed non-default option."""

    def __init__(self, ch, fixed):
        self.ch, self.fixed = ch, fixed

    def choose(self, label, options, free=False):
        if label in self.fixed:
            return list(options)[self.fixed[label]]
        return self.ch.choose(label, options, free=free)

    def reject(self, why=''):
        self.ch.reject(why)


def b_arrays2d_preset(fixed):
    def build(ch):
        return make_deck(Preset(ch, fixed), 2, False, False, 'all')
    return build


def b_arrays1d(ch):
    return make_deck(ch, 1, False, False, 'all')


def b_shapes(ch):
    dims = ch.choose('dims', [2, 1, 3])
    skew = ch.choose('skew', [False, True]) if dims >= 2 else False
    by_rpp = ch.choose('by-rpp', [False, True, 'facets']) if not skew else False
    mode = ch.choose('array-mode', ['rot', 'single'])
    return make_deck(ch, dims, skew, by_rpp, mode)


BIG_RANGES = [(0, 3), (-5, 6), (-2, 2), (0, 9)]


def b_big(ch):
    """beyond the small scope: 4 x 4, 12 x 4, 5 x 5, 10 x 4 ... elements (FILL arrays of up to 40 entries or FILL=n
    with --lattice), container large enough to hold them"""
    dims = ch.choose('dims', [2, 1])
    mode = ch.choose('array-mode', ['rot', 'single'])
    return make_deck(Preset(ch, {'container': 0}), dims, False, False, mode, ranges=BIG_RANGES)


def scenarios(tier):
    q = tier == 'quick'
    return [
        Scn('big', b_big, 1 if q else 2, 2, 'lattices of 4 ... 40 elements'),
        Scn('arrays-2d', b_arrays2d, 0 if q else 1, 2, 'all fill arrays (free) x other choices deviation-bounded'),
        Scn('arrays-2d-flip', b_arrays2d_preset({'hi-first0': 1}), 0, 0, 'all arrays, first pair listed low-first'),
        Scn('arrays-2d-swap', b_arrays2d_preset({'pair-order': 1, 'hi-first1': 1}), 0, 0, 'all arrays, pairs swapped'),
        Scn('arrays-2d-rot', b_arrays2d_preset({'filltr': 2, 'range0': 2}), 0, 0, 'all 3x2 arrays with a 90deg fill rotation'),
        Scn('arrays-1d', b_arrays1d, 1 if q else 2, 2, 'all fill arrays (free) x other choices deviation-bounded'),
        Scn('shapes', b_shapes, 2 if q else 3, 3, 'dimensions, skew, rpp, ranges, transformations, containers'),
        Scn('own-universe', lambda ch: b_shapes(Preset(ch, {'array-mode': 1, 'fill-univ': 1})), 1 if q else 2, 2,
            'FILL=<own universe> with --lattice: every element keeps the material of the lattice cell'),
    ]


def lat_card_fix(st):
    return st


def check_state(scn, st, corrupt=None, result=None):
    r = result if result is not None else env.run(st.deck_text, st.options)
    if not r.ok:
        # acceptable only if the reference model owns no point at all (nothing to convert)
        P0 = geomdecide.witnesses(st.all_ref_planes())
        ch0, _ = st.locate(P0)
        if all(c is None or st.cell(c[0]).imp == 0 for c in ch0):
            return verdict(True, st, out='err:' + r.exc_type, nontrivial=False, stats={'empty_model_errors': 1})
        return verdict(False, st, cls={'kind': 'exception', 'exc': r.exc_type},
                       msg='conversion failed: %s\n%s\n%s' % (r.brief(), st.options, st.deck_text),
                       out='err:' + r.exc_type)
    t4 = t4read.parse(r.t4)
    cls, msg = oracle.structural_cls(t4, st.options)
    if cls:
        return verdict(False, st, cls=cls, msg=msg + '\n' + st.deck_text + r.body[:1500], out=sha(r.body))
    if getattr(st, 'shift', None) is not None:
        # a deck written far from the origin is judged in the coordinates of the deck at the origin
        t4 = t4read.pullback(t4, st.shift, 1.0)
        if t4 is None:
            raise RuntimeError('a shifted deck produced a surface kind that cannot be pulled back')
    P, info = oracle.probe_points(t4, st.all_ref_planes())
    if not info['complete']:
        return verdict(False, st, cls={'kind': 'non-plane-surface'}, msg='curved surface in a plane deck',
                       out=sha(r.body))
    chains, problems = st.locate(P)
    if problems:
        raise RuntimeError('generated deck is not a partition: %s' % problems[:2])
    real = set(c.num for c in st.hcells)
    lat = st.cell(20)
    expected = np.empty(len(P), object)
    for i, chn in enumerate(chains):
        if chn is None or st.cell(chn[0]).imp == 0:
            expected[i] = None
            continue
        if len(chn) == 1:
            expected[i] = ('cell', chn[0])
            continue
        last = chn[-1]
        if isinstance(last, tuple):      # element filled with the lattice's own universe
            expected[i] = ('own', chn[0], 'm%d' % lat.mat)
        else:
            c = st.cell(last)
            expected[i] = (last, chn[0], 'm%d' % c.mat if c.mat else 'm0')
    if corrupt == 'swap-index':
        pass
    gmap = {}
    for name, cnt, ids in t4.geomcomp:
        for v in ids:
            gmap[v] = name

    def label(v):
        prov = t4.provenance(v)
        if not prov:
            return ('cell', v)
        first = prov[0][0]
        nm = (gmap.get(v) or '').split('_')[0]
        return (first if first in real else 'own', prov[-1][1], nm)
    bad = oracle.compare_owner(t4, P, expected, label_of=label)
    labels = set(e for e in expected if e is not None)
    stats = {'witness_points': len(P), 'elements': len(lat.array)}
    if bad:
        feat = []
        if lat.filltr is not None and not np.allclose(lat.filltr.motion.B, np.eye(3)):
            feat.append('fill-rotation')
        if lat.trcl is not None:
            feat.append('lat-trcl')
        return verdict(False, st, cls={'kind': 'location', 'features': ','.join(feat)},
                       msg='%s\n%s\n%s\n%s' % ('\n'.join(bad[:6]), st.options, st.deck_text, r.body[:3000]),
                       out=sha(r.body), stats=stats)
    return verdict(True, st, out=sha(r.body), nontrivial=len(labels) >= 2, stats=stats)


def canaries():
    from ..explore import Chooser
    st = b_arrays2d(Chooser(()))
    ok = check_state('arrays-2d', st)['ok']
    # reference with the two index directions exchanged must be noticed
    from ..explore import PresetChooser
    st2 = b_arrays2d(PresetChooser({'a1': 1, 'a2': 2, 'a3': 3}))
    lat = st2.cell(20)
    lat.base = [lat.base[1], lat.base[0]]
    return [('c06-baseline', ok), ('c06-swapped-base-vectors-detected', not check_state('arrays-2d', st2)['ok'])]


def finish(agg, tier):
    if agg['stats'].get('elements', 0) < 1000:
        raise Vacuous('too few lattice elements')
    return {}
