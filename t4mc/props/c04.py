"""C04 - coordinate transformations move surfaces and cells by the MCNP rigid motion."""
import math

import numpy as np

from .. import env, t4read, oracle, geomdecide, refsem
from ..deck import Deck, fmt
from ..runner import Scn, verdict, sha, Vacuous
from . import c03

ID = 'C04'
DECORATE = True
LEVEL = 'model_checking'
RULE = ('E1 enumeration of (object, rigid motion, card spelling): objects = planes, sphere, cylinders, '
        'one- and two-sheet cones, circular/elliptic tori, GQ, SQ, and every macrobody kind (RPP, RCC, BOX, SPH, RHP, REC, TRC, ELL, WED, ARB; facets referenced too); motions = 2 displacements x '
        '(identity, the 24 axis-permuting/flipping rotations, 30deg about z, 40deg about (1,1,1), one '
        'generic rotation); spellings = TRn on the surface card (12, 13, 3 entries, *TR), cell TRCL by '
        'number / inline 12 / inline 3 / *TRCL, implicit surface 1000*cell+surf referenced negatively, '
        'positively or both; abbreviated matrices (9, 6 rows/columns, 5, 3 entries, J placeholders) are '
        'recovered from the written planes.  Oracle: image f(B(x-O)) of the reference polynomial; '
        'identification + lattice comparison.  non-trivial = motion is not the identity and both senses '
        'are realised; distinct = distinct deck text; also: three-point planes carried across the origin, orientation-reversing matrices, a second motion on top (TRCL inside a FILLed universe, FILL inside FILL)')
ASSUMPTIONS = [
    'MCNP TR semantics: x_main = O + B^T x_aux, B1..B9 = cosines xx\' yx\' zx\' xy\' ... (rows = auxiliary axes), '
    'degrees for starred forms (DESIGN 5)',
    'a cell TRCL moves every surface of the cell; surface 1000*c+s is surface s moved by the TRCL of cell c',
]

LAT = geomdecide.lattice_points(-8.0, 8.0, 13)


def obj_ref(kind):
    """(card text without number, RefSurf)"""
    if kind == 'rpp':
        b = c03.body_rpp([-1.0, 2.0, -3.0, 1.0, 0.0, 4.0])
        return b.card, refsem.RefSurf(b.facets, b.inside)
    if kind == 'rcc':
        b = c03.body_rcc((0.5, 0.0, -1.0), (0.0, 0.0, 3.0), 1.5)
        return b.card, refsem.RefSurf(b.facets, b.inside)
    if kind in MACRO:
        b = MACRO[kind]()
        return b.card, refsem.RefSurf(b.facets, b.inside)
    mn, p = OBJ[kind]
    return mn + ' ' + ' '.join(fmt(x) for x in p), refsem.mcnp_surface(mn, p)


OBJ = {
    'px': ('px', [1.5]), 'p': ('p', [1.0, 2.0, -1.0, 0.5]), 's': ('s', [1.0, -1.0, 0.5, 1.5]),
    'c/x': ('c/x', [1.0, -2.0, 1.5]), 'cz': ('cz', [2.0]),
    'kx+': ('kx', [1.0, 0.5, 1]), 'kx-': ('kx', [1.0, 0.5, -1]), 'k/y': ('k/y', [1.0, -1.0, 0.5, 2.0]),
    'k/z+': ('k/z', [0.5, 1.0, -1.0, 0.25, 1]),
    'tz': ('tz', [1.0, -1.0, 0.5, 3.0, 1.0, 1.0]), 'tze': ('tz', [1.0, -1.0, 0.5, 3.0, 0.5, 1.0]),
    'tx': ('tx', [0.0, 1.0, 0.0, 2.5, 1.0, 0.5]),
    'gq': ('gq', [1.0, 2.0, 0.5, 0.3, -0.2, 0.1, 1.0, -1.0, 0.5, -6.0]),
    'sq': ('sq', [1.0, 2.0, -0.5, 0.3, -0.2, 0.1, -4.0, 1.0, -1.0, 0.5]),
    # the same loci with the (homogeneous) equation scaled: coefficients far below / above 1
    'gq*1e-12': ('gq', [1.0e-12 * v for v in [1.0, 2.0, 0.5, 0.3, -0.2, 0.1, 1.0, -1.0, 0.5, -6.0]]),
    'sq*1e-12': ('sq', [1.0e-12 * v for v in [1.0, 2.0, -0.5, 0.3, -0.2, 0.1, -4.0]] + [1.0, -1.0, 0.5]),
    'gq*1e9': ('gq', [1.0e9 * v for v in [1.0, 2.0, 0.5, 0.3, -0.2, 0.1, 1.0, -1.0, 0.5, -6.0]]),
    'p*1e-9': ('p', [1.0e-9, 2.0e-9, -1.0e-9, 0.5e-9]),
    # planes given by three points: their sense is fixed in the frame the points are given in (origin
    # negative); the displacement (1 -2 3) carries both across the origin of the main frame
    'p3x': ('p', [-0.5, 0.0, 0.0, -0.5, 1.0, 0.0, -0.5, 0.0, 1.0]),
    'p3g': ('p', [-0.5, 0.0, 0.0, 0.0, 0.75, 0.0, 0.0, 0.0, -1.0]),
}
MACRO = {
    'box': lambda: c03.body_box((-1.0, 0.5, -2.0), (3.0, 0.0, 0.0), (0.0, 0.0, 2.0), (0.0, -4.0, 0.0)),
    'sph': lambda: c03.body_sph((1.0, -1.0, 0.5), 1.5),
    'rhp': lambda: c03.body_rhp((0.0, 0.5, -1.0), (0.0, 0.0, 3.0), (1.5, 0.0, 0.0)),
    'rec': lambda: c03.body_rec((0.0, 0.5, -1.0), (0.0, 3.0, 0.0), (2.0, 0.0, 0.0), 1.0),
    'trc': lambda: c03.body_trc((0.5, 0.0, -1.0), (0.0, 0.0, 3.0), 2.0, 1.0),
    'ell': lambda: c03.body_ell((0.5, -0.5, 0.0), (0.0, 2.5, 0.0), -1.25),
    'wed': lambda: c03.body_wed((-1.0, -1.0, -1.0), (0.0, 2.0, 0.0), (3.0, 0.0, 0.0), (0.0, 0.0, -2.5)),
    'arb': lambda: c03.body_arb([(0, 0, 0), (3, 0, 0), (0, 2.5, 0), (0.5, 0.5, 4)],
                                [(1, 2, 3), (1, 2, 4), (2, 3, 4), (3, 1, 4)]),
}
OBJ_KINDS = ['px', 'p', 's', 'c/x', 'cz', 'kx+', 'kx-', 'k/y', 'k/z+', 'tz', 'tze', 'tx', 'gq', 'sq',
             'rpp', 'rcc', 'gq*1e-12', 'sq*1e-12', 'gq*1e9', 'p*1e-9', 'p3x', 'p3g'] + sorted(MACRO)

DISPL = [(0.0, 0.0, 0.0), (1.0, -2.0, 3.0)]
_PERMS = refsem.signed_permutations()
GENERIC = refsem.rotation([0.3, -1.0, 0.5], 75.0) @ refsem.rotation([1, 0, 0], 20.0)
ROTS = ([('I', np.eye(3))] + [('perm%d' % i, M) for i, M in enumerate(_PERMS) if not np.allclose(M, np.eye(3))]
        # tilts of a fraction of a degree: an axis that is almost, but not, a coordinate axis
        + [('tilt0.1x', refsem.rotation([1, 0, 0], 0.1)), ('tilt0.02y', refsem.rotation([0, 1, 0], 0.02)),
           ('tilt0.2d', refsem.rotation([1, -1, 0.3], 0.2))]
        + [('z30', refsem.rotation([0, 0, 1], 30.0)), ('d40', refsem.rotation([1, 1, 1], 40.0)),
           ('gen', GENERIC)])
# orientation-reversing matrices (a 9-entry matrix is applied as typed; the converter keeps the hand of the
# third vector when it re-orthogonalises)
MIRRORS = [('mirror-z', np.diag([1.0, 1.0, -1.0])), ('mirror-gen', GENERIC @ np.diag([1.0, -1.0, 1.0]))]
ROTS6 = [ROTS[0], ROTS[1], ROTS[8], ROTS[15], ROTS[-3], ROTS[-1]] + MIRRORS
ROTS = ROTS[:-1] + MIRRORS + ROTS[-1:]
ROTD = dict(ROTS)


def clean(x):
    return 0.0 if abs(x) < 1e-15 else float(x)


def tr_numbers(m, degrees=False):
    return ' '.join(fmt(clean(x)) for x in m.card_entries(degrees))


class St(Deck):
    pass


def motion_of(ch, rots):
    name, R = ch.choose('rot', rots)
    O = ch.choose('displ', DISPL)
    return name, refsem.Motion(O, R.T)


SPELLINGS = ['surf-tr12', 'surf-tr13', 'surf-startr', 'trcl-num', 'trcl-inline', 'trcl-star',
             'implicit-both', 'implicit-neg', 'implicit-pos', 'trcl-num-startr', 'both-tr-trcl', 'both-implicit',
             'implicit-collide', 'trcl-inline13', 'trcl-star13', 'surf-startr13', 'compl-of-imp0-trcl',
             'compl-of-trcl-later']
M2 = refsem.Motion((-0.5, 1.0, 0.25), refsem.rotation([0, 1, 0], 90.0).T)     # second motion for compositions


def build_state(kind, rname, m, spelling):
    card, ref = obj_ref(kind)
    st = St('c04 %s %s %s' % (kind, rname, spelling))
    st.kind, st.rname, st.spelling, st.motion = kind, rname, spelling, m
    st.ref = ref.moved(m)
    st.identity = m.is_identity()
    tr12 = tr_numbers(m)
    if spelling == 'implicit-collide':
        # cell 1 carries the TRCL, so the implicit surfaces are 1001 and 1002; the highest explicit surface
        # number (999) lies just below them: ids allocated for the transformed copies must not collide
        plane = refsem.mcnp_surface('px', [-20.0])
        sph = refsem.mcnp_surface('so', [50.0])
        pm = plane.moved(m)
        st.ref = refsem.RefSurf(list(st.ref.comps) + list(pm.comps) + list(sph.comps), st.ref._neg, st.ref._pos)
        st.surfs = ['1 ' + card, '2 px -20', '999 so 50']
        st.data = ['tr7 ' + tr12]
        st.cells = ['1 0 2 -1 trcl=7 imp:n=1', '6 0 -1001 imp:n=1', '7 0 1002 -999 imp:n=1', '8 0 1001 1002 imp:n=1']
        objm = ref.moved(m)
        st.expect = {1: ('fn', lambda P: pm.pos(P) & objm.neg(P)), 6: 'neg',
                     7: ('fn', lambda P: pm.pos(P) & sph.neg(P)), 8: ('fn', lambda P: pm.pos(P) & objm.pos(P))}
        return st
    if spelling in ('compl-of-imp0-trcl', 'compl-of-trcl-later'):
        # the moved cell is not converted itself (importance 0) or is defined after its user; another cell
        # refers to it with #n and must see the moved solid
        sph = refsem.mcnp_surface('so', [60.0])
        objm = ref.moved(m)
        st.ref = refsem.RefSurf(list(objm.comps) + list(sph.comps), objm._neg, objm._pos)
        st.surfs = ['1 ' + card, '999 so 60']
        st.data = ['tr7 ' + tr12]
        if spelling == 'compl-of-imp0-trcl':
            st.cells = ['1 0 -1 trcl=7 imp:n=0', '2 0 #1 -999 imp:n=1', '3 0 999 imp:n=0']
            st.expect = {2: ('fn', lambda P: objm.pos(P) & sph.neg(P))}
        else:
            st.cells = ['2 0 #1 -999 imp:n=1', '3 0 999 imp:n=0', '1 0 -1 trcl=(%s) imp:n=1' % tr12]
            st.expect = {2: ('fn', lambda P: objm.pos(P) & sph.neg(P)), 1: 'neg'}
        return st
    if spelling in ('trcl-in-fill', 'fill-in-fill'):
        # two motions one after the other: the cell is moved by its TRCL (or its universe by an inner FILL
        # transformation), then the universe it belongs to is placed with a FILL transformation M2
        sph = refsem.mcnp_surface('so', [200.0])
        objm = ref.moved(m).moved(M2)
        st.ref = refsem.RefSurf(list(objm.comps) + list(sph.comps), objm._neg, objm._pos)
        st.identity = False
        st.surfs = ['1 ' + card, '999 so 200']
        st.data = ['tr7 ' + tr12]
        if spelling == 'trcl-in-fill':
            st.cells = ['9 0 -999 fill=5 (%s) imp:n=1' % tr_numbers(M2), '10 0 999 imp:n=0',
                        '1 0 -1 trcl=7 u=5 imp:n=1', '2 0 1 trcl=7 u=5 imp:n=1']
            st.expect = {('piece', (1, 9)): 'neg', ('piece', (2, 9)): 'pos'}
            if kind in ('rpp', 'rcc') or kind in MACRO:
                for j in range(1, len(ref.comps) + 1):
                    st.cells.append('%d 0 -1.%d trcl=7 u=6 imp:n=1' % (20 + j, j))
                    st.cells.append('%d 0 1.%d trcl=7 u=6 imp:n=1' % (40 + j, j))
                    st.cells.append('%d 0 -999 fill=6 (%s) imp:n=1' % (60 + j, tr_numbers(M2)))
                    break      # one facet universe (the universe must be a partition): facet 1
                st.expect[('piece', (21, 61))] = ('facet', 1, -1)
                st.expect[('piece', (41, 61))] = ('facet', 1, 1)
        else:
            st.cells = ['9 0 -999 fill=5 (%s) imp:n=1' % tr_numbers(M2), '10 0 999 imp:n=0',
                        '8 0 -999 fill=4 (7) u=5 imp:n=1', '7 0 999 u=5 imp:n=1',
                        '1 0 -1 u=4 imp:n=1', '2 0 1 u=4 imp:n=1']
            st.expect = {('piece', (1, 8), (1, 9)): 'neg', ('piece', (2, 8), (2, 9)): 'pos'}
            # surface 999 also bounds the inner container, a cell of universe 5: that copy moves with M2
            st.ref = refsem.RefSurf(list(st.ref.comps) + list(sph.moved(M2).comps), objm._neg, objm._pos)
        return st
    if spelling.startswith('both-'):
        # the surface card carries TR7 (motion m) and the cell a TRCL (motion M2): the cell sees the surface
        # moved by m first, then by M2
        st.ref = ref.moved(m).moved(M2)
        st.identity = False
        st.surfs = ['1 7 ' + card]
        st.data = ['tr7 ' + tr12, 'tr8 ' + tr_numbers(M2)]
        if spelling == 'both-tr-trcl':
            st.cells = ['1 0 -1 trcl=8 imp:n=1', '2 0 1 trcl=8 imp:n=1']
            st.expect = {1: 'neg', 2: 'pos'}
        else:
            st.cells = ['5 0 -1 trcl=8 imp:n=1', '6 0 -5001 imp:n=1', '7 0 5001 imp:n=1']
            st.expect = {5: 'neg', 6: 'neg', 7: 'pos'}
        return st
    if spelling.startswith('surf-'):
        st.cells = ['1 0 -1 imp:n=1', '2 0 1 imp:n=1']
        st.surfs = ['1 7 ' + card]
        st.expect = {1: 'neg', 2: 'pos'}
        if spelling == 'surf-tr12':
            st.data = ['tr7 ' + tr12]
        elif spelling == 'surf-tr13':
            st.data = ['tr7 ' + tr12 + ' 1']
        elif spelling == 'surf-startr13':
            st.data = ['*tr7 ' + tr_numbers(m, True) + ' 1']
        else:
            st.data = ['*tr7 ' + tr_numbers(m, True)]
        if kind in ('rpp', 'rcc') or kind in MACRO:
            for j in range(1, len(ref.comps) + 1):
                st.cells.append('%d 0 -1.%d imp:n=1' % (20 + j, j)); st.expect[20 + j] = ('facet', j, -1)
                st.cells.append('%d 0 1.%d imp:n=1' % (30 + j, j)); st.expect[30 + j] = ('facet', j, 1)
    elif spelling.startswith('trcl'):
        st.surfs = ['1 ' + card]
        st.expect = {1: 'neg', 2: 'pos'}
        if spelling == 'trcl-num':
            kw = 'trcl=7'; st.data = ['tr7 ' + tr12]
        elif spelling == 'trcl-num-startr':
            kw = 'trcl=7'; st.data = ['*tr7 ' + tr_numbers(m, True)]
        elif spelling == 'trcl-inline':
            kw = 'trcl=(%s)' % tr12
        elif spelling == 'trcl-inline13':
            kw = 'trcl=(%s 1)' % tr12
        elif spelling == 'trcl-star13':
            kw = '*trcl=(%s 1)' % tr_numbers(m, True)
        else:
            kw = '*trcl=(%s)' % tr_numbers(m, True)
        st.cells = ['1 0 -1 %s imp:n=1' % kw, '2 0 1 %s imp:n=1' % kw]
        if kind in ('rpp', 'rcc') or kind in MACRO:
            # facet references inside the transformed cell
            for j in range(1, len(ref.comps) + 1):
                st.cells.append('%d 0 -1.%d %s imp:n=1' % (20 + j, j, kw)); st.expect[20 + j] = ('facet', j, -1)
                st.cells.append('%d 0 1.%d %s imp:n=1' % (30 + j, j, kw)); st.expect[30 + j] = ('facet', j, 1)
    else:
        st.surfs = ['1 ' + card]
        st.data = ['tr7 ' + tr12]
        st.cells = ['5 0 -1 trcl=7 imp:n=1']
        st.expect = {5: 'neg'}
        if spelling in ('implicit-both', 'implicit-neg'):
            st.cells.append('6 0 -5001 imp:n=1'); st.expect[6] = 'neg'
        if spelling in ('implicit-both', 'implicit-pos'):
            st.cells.append('7 0 5001 imp:n=1'); st.expect[7] = 'pos'
    return st


def b_default(ch):
    """objects x motions, default spelling (TRn on the surface card)."""
    kind = ch.choose('obj', OBJ_KINDS)
    rname, m = motion_of(ch, ROTS)
    return build_state(kind, rname, m, 'surf-tr12')


def b_trcl(ch):
    kind = ch.choose('obj', OBJ_KINDS)
    rname, m = motion_of(ch, ROTS)
    return build_state(kind, rname, m, 'trcl-num')


def b_spell(ch):
    kind = ch.choose('obj', OBJ_KINDS)
    rname, m = motion_of(ch, ROTS6)
    sp = ch.choose('spelling', SPELLINGS)
    st = build_state(kind, rname, m, sp)
    # the image does not depend on whether identical surfaces are merged afterwards
    st.options = ch.choose('options', [[], ['--skip-deduplication']])
    return st


def b_transl3(ch):
    """3-entry forms (translation only)."""
    kind = ch.choose('obj', OBJ_KINDS)
    O = ch.choose('displ', [(1.0, -2.0, 3.0), (0.0, 0.5, 0.0), (-2.0, 0.0, 0.0)])
    m = refsem.Motion(O, np.eye(3))
    sp = ch.choose('spelling', ['tr3', 'trcl3', 'startr3', 'startrcl3'])
    card, ref = obj_ref(kind)
    st = St('c04 %s transl %s' % (kind, sp))
    st.kind, st.rname, st.spelling, st.motion = kind, 'I', sp, m
    st.ref = ref.moved(m); st.identity = False
    o3 = ' '.join(fmt(x) for x in O)
    st.expect = {1: 'neg', 2: 'pos'}
    if sp in ('tr3', 'startr3'):
        st.cells = ['1 0 -1 imp:n=1', '2 0 1 imp:n=1']
        st.surfs = ['1 7 ' + card]
        st.data = [('tr7 ' if sp == 'tr3' else '*tr7 ') + o3]
    else:
        kw = ('trcl=(%s)' if sp == 'trcl3' else '*trcl=(%s)') % o3
        st.cells = ['1 0 -1 %s imp:n=1' % kw, '2 0 1 %s imp:n=1' % kw]
        st.surfs = ['1 ' + card]
    return st


# ----- abbreviated matrices -------------------------------------------------

def jfmt(vals):
    return ' '.join('j' if v is None else fmt(clean(v)) for v in vals)


ABBREV_FORMS = (['9', '6rows12', '6rows13', '6rows23', '6cols12', '6cols13', '6cols23']
                + ['5r%dc%d' % (r, c) for r in (1, 2, 3) for c in (1, 2, 3)]
                + ['3row1', '3row2', '3row3', '3col1', '3col2', '3col3'])


def abbreviate(Bflat, form):
    """entries of the 3x3 (row-wise list) kept by the form; None = J."""
    B = list(Bflat)
    keep = [False] * 9
    if form == '9':
        keep = [True] * 9
    elif form.startswith('6rows'):
        for r in form[5:]:
            for c in range(3):
                keep[3 * (int(r) - 1) + c] = True
    elif form.startswith('6cols'):
        for c in form[5:]:
            for r in range(3):
                keep[3 * r + int(c) - 1] = True
    elif form.startswith('5'):
        r, c = int(form[2]) - 1, int(form[4]) - 1
        for k in range(3):
            keep[3 * r + k] = True
            keep[3 * k + c] = True
    elif form.startswith('3row'):
        r = int(form[4]) - 1
        for k in range(3):
            keep[3 * r + k] = True
    elif form.startswith('3col'):
        c = int(form[4]) - 1
        for k in range(3):
            keep[3 * k + c] = True
    vals = [b if k else None for b, k in zip(B, keep)]
    while vals and vals[-1] is None:
        vals.pop()
    return vals


def b_abbrev(ch):
    name, R = ch.choose('rot', [('gen', ROTD['gen']), ('d40', ROTD['d40']), ('z30', ROTD['z30']), ROTS[1], ROTS[5], ROTS[12]])
    O = ch.choose('displ', DISPL)
    form = ch.choose('form', ABBREV_FORMS)
    star = ch.choose('star', [False, True])
    m = refsem.Motion(O, R.T)
    Bflat = m.B.flatten()
    if star:
        Bflat = [math.degrees(math.acos(max(-1.0, min(1.0, x)))) for x in Bflat]
    vals = abbreviate(Bflat, form)
    st = St('c04 abbrev %s %s' % (name, form))
    st.kind, st.rname, st.spelling, st.motion = 'abbrev', name, form + ('*' if star else ''), m
    st.form = form
    st.supplied = abbreviate(m.B.flatten(), form)
    st.cells = ['1 0 -1 trcl=7 imp:n=1', '2 0 -2 trcl=7 imp:n=1', '3 0 -3 trcl=7 imp:n=1']
    st.surfs = ['1 px 1', '2 py 1', '3 pz 1']
    st.data = [('*tr7 ' if star else 'tr7 ') + ' '.join(fmt(x) for x in O) + ' ' + jfmt(vals)]
    st.identity = False
    return st


def b_double(ch):
    kind = ch.choose('obj', OBJ_KINDS)
    rname, m = motion_of(ch, ROTS6)
    return build_state(kind, rname, m, ch.choose('spelling', ['trcl-in-fill', 'fill-in-fill']))


def scenarios(tier):
    q = tier == 'quick'
    return [
        Scn('double', b_double, None, None, 'objects x 8 motions x 2 displacements, a second motion applied on top (TRCL inside a FILLed universe, FILL inside FILL)'),
        Scn('surf-tr', b_default, None, None, 'objects x motions complete, TRn on the surface card'),
        Scn('trcl', b_trcl, None, None, 'objects x motions complete, cell TRCL=n'),
        Scn('spellings', b_spell, None, None, 'objects x 6 motions x 2 displacements x all spellings'),
        Scn('translations', b_transl3, None, None, '3-entry forms'),
        Scn('abbrev', b_abbrev, None, None, 'abbreviated matrices recovered from written planes'),
    ]


def applied_rows(t4, cells=(1, 2, 3)):
    """Rows of the matrix actually applied, read off the planes bounding cells 1..3."""
    rows, offs = [], []
    for c in cells:
        v = t4.vols.get(c)
        if v is None or len(v['minus']) + len(v['plus']) != 1 or v['op']:
            return None, None
        sid = (v['minus'] + v['plus'])[0]
        sign = 1.0 if v['minus'] else -1.0
        kind, p, tr = t4.surfs[sid]
        if kind not in t4read.PLANE_TYPES:
            return None, None
        f, _ = oracle.t4_surface_fn(t4, sid)
        z = np.zeros((1, 3))
        d = f(z)[0]
        n = np.array([f(np.eye(3)[i:i + 1])[0] - d for i in range(3)])
        L = np.linalg.norm(n)
        rows.append(sign * n / L)
        offs.append(sign * d / L)
    return np.array(rows), np.array(offs)


def check_abbrev(st, r, t4):
    rows, offs = applied_rows(t4)
    if rows is None:
        return verdict(False, st, cls={'kind': 'abbrev-shape'}, msg='probe planes not found\n' + r.body[:800],
                       out=sha(r.body))
    A = rows
    msgs = []
    if not np.allclose(A @ A.T, np.eye(3), atol=1e-9):
        msgs.append('applied matrix is not orthonormal')
    if abs(np.linalg.det(A) - 1.0) > 1e-9:
        msgs.append('applied matrix has determinant %.6f' % np.linalg.det(A))
    sup = list(st.supplied) + [None] * (9 - len(st.supplied))
    for k, s in enumerate(sup):
        if s is not None and abs(A.flatten()[k] - s) > 1e-9:
            msgs.append('entry B%d supplied %.12g applied %.12g' % (k + 1, s, A.flatten()[k]))
    unique = st.form[0] in '96'
    if st.form[0] == '5':
        # row r and column c determine the rotation only if their common entry is not +-1
        # (otherwise the remaining 2x2 block is an arbitrary rotation about that axis)
        rr, cc = int(st.form[2]) - 1, int(st.form[4]) - 1
        unique = abs(st.motion.B[rr, cc]) < 1.0 - 1e-9
    if unique and not np.allclose(A, st.motion.B, atol=1e-9):
        msgs.append('completed matrix differs from the unique rotation with the supplied entries')
    want_off = -(1.0 + A @ st.motion.O)
    if not np.allclose(offs, want_off, atol=1e-9):
        msgs.append('plane offsets %s, expected %s' % (offs.tolist(), want_off.tolist()))
    if msgs:
        return verdict(False, st, cls={'kind': 'abbrev', 'form': st.form[0]},
                       msg='%s\n%s\n%s' % (st.data[0], '\n'.join(msgs[:6]), r.body[:800]), out=sha(r.body))
    return verdict(True, st, out=sha(r.body), stats={'abbrev_forms': {st.form}})


def check_state(scn, st, transpose=False):
    r = env.run(st.deck_text, st.options)
    if not r.ok:
        return verdict(False, st, cls={'kind': 'exception', 'exc': r.exc_type, 'spelling': st.spelling},
                       msg='conversion failed: %s\n%s' % (r.brief(), st.deck_text), out='err:' + r.exc_type)
    t4 = t4read.parse(r.t4)
    cls, msg = oracle.structural_cls(t4, st.options)
    if cls:
        return verdict(False, st, cls=cls, msg=msg, out=sha(r.body))
    if st.kind == 'abbrev':
        return check_abbrev(st, r, t4)
    ref = st.ref
    if transpose:
        card, base = obj_ref(st.kind)
        ref = base.moved(refsem.Motion(st.motion.O, st.motion.B.T))
    matches, unmatched = oracle.identify_surfaces(t4, ref.comps)
    desc = dict(obj=st.kind, spelling=st.spelling.split('-')[0],
                rot='perm' if st.rname.startswith('perm') else st.rname)
    if unmatched:
        return verdict(False, st, cls=dict(desc, kind='locus'),
                       msg='SURF %s is not the image of the object under the MCNP motion\n%s\n%s'
                       % (unmatched, st.deck_text, r.body[:900]), out=sha(r.body))
    P = LAT
    clear = np.ones(len(P), bool)
    for f, d in ref.comps:
        v = f(P)
        clear &= np.abs(v) > 1e-7 * max(1.0, np.abs(v).max())
    P = P[clear]
    neg, pos = ref.neg(P), ref.pos(P)
    exp = {}
    for c, sdesc in st.expect.items():
        if isinstance(sdesc, tuple) and sdesc[0] == 'fn':
            exp[c] = sdesc[1](P)
        elif isinstance(sdesc, tuple):
            fv = ref.comps[sdesc[1] - 1][0](P)
            exp[c] = (fv < 0) if sdesc[2] < 0 else (fv > 0)
        else:
            exp[c] = neg if sdesc == 'neg' else pos
    for c in [c for c in exp if isinstance(c, tuple)]:
        # a piece of a filled cell: the volume whose comment carries these (filler, container) pairs
        vids = [v for v in t4.nonvirtual() if t4.provenance(v) == list(c[1:])]
        want = exp.pop(c)
        if len(vids) != 1:
            if want.any():
                return verdict(False, st, cls=dict(desc, kind='piece-missing'),
                               msg='%d volumes for the piece %s\n%s\n%s' % (len(vids), c[1:], st.deck_text, r.body[:1500]),
                               out=sha(r.body))
            continue
        exp[vids[0]] = want
    bad = oracle.compare_cells(t4, P, exp)
    stats = {'probe_points': len(P), 'objects': {st.kind}, 'spellings': {st.spelling}}
    if bad:
        return verdict(False, st, cls=dict(desc, kind='region'),
                       msg='%s\n%s\n%s' % (st.deck_text, '\n'.join(bad[:6]), r.body[:900]),
                       out=sha(r.body), stats=stats)
    return verdict(True, st, out=sha(r.body), nontrivial=bool(not st.identity and neg.any() and pos.any()),
                   stats=stats)


def canaries():
    m = refsem.Motion((1.0, -2.0, 3.0), refsem.rotation([0, 0, 1], 30.0).T)
    st = build_state('c/x', 'z30', m, 'surf-tr12')
    return [('c04-baseline', check_state('x', st)['ok']),
            ('c04-transposed-matrix-detected', not check_state('x', st, transpose=True)['ok'])]


def finish(agg, tier):
    if len(agg['stats'].get('objects', ())) < len(OBJ_KINDS):
        raise Vacuous('not all objects exercised')
    return {'objects': sorted(agg['stats']['objects']), 'spellings': sorted(agg['stats'].get('spellings', ())),
            'abbrev_forms': sorted(agg['stats'].get('abbrev_forms', ()))}
