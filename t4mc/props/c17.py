"""C17 - unsupported or malformed input stops the run instead of yielding geometry."""
import numpy as np

from .. import env, t4read
from ..deck import Deck
from ..runner import Scn, verdict, sha, Vacuous

ID = 'C17'
LEVEL = 'fault_enumeration'
RULE = ('fault enumeration: every fault class of the statement injected at every applicable card of valid base '
        'decks: m=-1 on TR / inline TRCL / inline FILL (plain and starred); LAT cell without --lattice, with '
        '--lattice for another cell (also: only for the cell a LIKE n BUT lattice was copied from, or only for the copy), with too few / too many / misplaced non-trivial ranges; every elementary '
        'mnemonic and every macrobody with one parameter too few and one too many; unknown mnemonic; facet '
        'index 0 and n+1 for every macrobody kind; FILL array one short and one long; IMP cards of unequal '
        'length; mixed-sign fractions at each position; malformed --lattice strings; oracle: the entry point '
        'raises / exits non-zero with a non-empty message, a normally finished conversion is the violation; '
        'the un-faulted base deck must convert (counted separately); distinct = deck text + options; '
        'non-trivial = faulted state (base decks are the trivial ones); also: LAT values other than 1, 2; U / FILL / LAT / TRCL data cards; undefined and doubly defined cell, surface and TR numbers; LIKE lattices without their own --lattice; facet faults in cells moved by TRCL / a FILL transformation; X/Y/Z cards of 3, 5, 6 entries whose points share a coordinate or a radius')
ASSUMPTIONS = [
    'parameter counts per mnemonic from the MCNP manual; the 5-entry torus accepted by the bundled MIP library '
    'and the 4-entry form of P are not counted as faults',
]

SURF_OK = {
    'p': [1, 2, -1, 0.5], 'px': [1.5], 'py': [-2], 'pz': [0.5], 'so': [2], 's': [1, -1, 0.5, 1.5],
    'sx': [1, 2], 'sy': [-1, 2], 'sz': [0.5, 1], 'c/x': [1, -2, 1.5], 'c/y': [1, -2, 1.5], 'c/z': [1, -2, 1.5],
    'cx': [2], 'cy': [2], 'cz': [2], 'k/x': [1, -1, 0.5, 0.5], 'k/y': [1, -1, 0.5, 2], 'k/z': [1, -1, 0.5, 0.25],
    'kx': [1, 0.5], 'ky': [-1, 2], 'kz': [0.5, 1],
    'sq': [1, 2, 0.5, 0, 0, 0, -4, 1, -1, 0.5], 'gq': [1, 2, 0.5, 0.3, -0.2, 0.1, 1, -1, 0.5, -6],
    'tx': [1, -1, 0.5, 3, 1, 1], 'ty': [1, -1, 0.5, 3, 1, 0.5], 'tz': [1, -1, 0.5, 3, 0.5, 1],
    'x': [1, 1, 3, 2], 'y': [1, 1, 3, 2], 'z': [1, 1, 3, 2],
}
MACRO_OK = {
    'box': [-1, -1, -2, 3, 0, 0, 0, 2, 0, 0, 0, 4], 'rpp': [-1, 2, -3, 1, 0, 4], 'sph': [1, -1, 0.5, 2],
    'rcc': [0, 0, -1, 0, 0, 4, 2], 'rhp': [0, 0, -1, 0, 0, 4, 2, 0, 0], 'hex': [0, 0, -1, 0, 0, 4, 2, 0, 0],
    'rec': [0, 0, -1, 0, 0, 4, 3, 0, 0, 1.5], 'trc': [0, 0, -1, 0, 0, 4, 2, 1], 'ell': [0, 0, 0, 0, 0, 3, -2],
    'wed': [-1, -1, -1, 3, 0, 0, 0, 2, 0, 0, 0, 4],
    'arb': [0, 0, 0, 2, 0, 0, 2, 3, 0, 0, 3, 0, 0, 0, 4, 2, 0, 4, 2, 3, 4, 0, 3, 4, 1234, 5678, 1265, 2376, 3487, 4158],
}
RAW_ERRORS = ('KeyError', 'IndexError', 'TypeError', 'AttributeError', 'AssertionError', 'StopIteration',
              'UnboundLocalError', 'RecursionError', 'ZeroDivisionError')
NFACETS = {'box': 6, 'rpp': 6, 'sph': 1, 'rcc': 3, 'rhp': 8, 'hex': 8, 'rec': 3, 'trc': 3, 'ell': 1, 'wed': 5,
           'arb': 6}


def nums(v):
    return ' '.join(repr(x) if isinstance(x, float) else str(x) for x in v)


class St(Deck):
    fault = None


def one_surface(card, cell_expr='-1'):
    st = St('c17')
    st.cells = ['1 0 %s imp:n=1' % cell_expr, '2 0 #1 imp:n=1']
    st.surfs = ['1 ' + card]
    return st


def b_surface_params(ch):
    mn = ch.choose('mn', list(SURF_OK), free=True)
    p = list(SURF_OK[mn])
    if mn in ('x', 'y', 'z'):
        # the two points may share their coordinate (a plane) or their radius (a cylinder): the shortcuts of
        # the card reader for those cases must not let a card of the wrong length through
        p = ch.choose('xyz-points', [[1, 1, 3, 2], [3, 1, 3, 2], [1, 2, 3, 2], [3, 2, 3, 2]], free=True)
    fault = ch.choose('fault', ['none', 'too-few', 'too-many'], free=True)
    if mn in ('x', 'y', 'z') and fault == 'none' and p == [3, 2, 3, 2]:
        ch.reject('one point given twice: no surface')
    if fault == 'too-few':
        if mn in ('tx', 'ty', 'tz'):
            p = p[:-2]       # 5 entries are accepted by the MIP library; 4 are a fault
        elif mn in ('kx', 'ky', 'kz', 'k/x', 'k/y', 'k/z'):
            p = p[:-1]
        elif mn in ('x', 'y', 'z'):
            p = p[:-1]
        else:
            p = p[:-1]
        if mn == 'p':
            p = [1, 2, -1]
    elif fault == 'too-many':
        if mn in ('kx', 'ky', 'kz', 'k/x', 'k/y', 'k/z'):
            p = p + [1, 1]     # one more than the optional sheet selector
        elif mn in ('x', 'y', 'z'):
            # 5 entries: wrong count; 6 entries: three points, which the converter does not support
            p = p + ch.choose('xyz-extra', [[4], [2, 7], [4, 3]], free=True)
        elif mn == 'p':
            p = p + [3]
        else:
            p = p + [1.25]
    st = one_surface('%s %s' % (mn, nums(p)))
    st.fault = None if fault == 'none' else 'surface-params:%s' % fault
    st.site = mn
    return st


def b_macro_params(ch):
    mn = ch.choose('mn', list(MACRO_OK), free=True)
    p = list(MACRO_OK[mn])
    fault = ch.choose('fault', ['none', 'too-few', 'too-many', 'facet-0', 'facet-n+1'], free=True)
    expr = '-1'
    if fault == 'too-few':
        p = p[:-1]
    elif fault == 'too-many':
        p = p + [1.25]
    elif fault == 'facet-0':
        expr = '-1.0'
    elif fault == 'facet-n+1':
        expr = '-1.%d' % (NFACETS[mn] + 1)
    if fault == 'too-few' and mn in ('rhp', 'hex'):
        p = list(MACRO_OK[mn])[:-1]
    if fault == 'too-many' and mn in ('rhp', 'hex'):
        p = list(MACRO_OK[mn]) + [1.0]     # 10 entries: neither 9 nor 15
    if fault == 'too-many' and mn == 'rec':
        p = list(MACRO_OK[mn]) + [1.0]     # 11 entries: neither 10 nor 12
    st = one_surface('%s %s' % (mn, nums(p)), expr)
    # the cell that uses the facet may be moved before it is converted (TRCL, or a universe placed by a FILL
    # transformation): the facet is then looked up on another path
    place = ch.choose('placement', ['plain', 'trcl', 'startrcl', 'fill-tr', 'fill-trnum'], free=True)
    if place == 'trcl':
        st.cells = ['1 0 %s trcl=(1 0 0) imp:n=1' % expr, '2 0 #1 imp:n=1']
    elif place == 'startrcl':
        st.cells = ['1 0 %s *trcl=(0 1 0 30 60 90 120 30 90 90 90 0) imp:n=1' % expr, '2 0 #1 imp:n=1']
    elif place.startswith('fill'):
        tr = '(1 0 0)' if place == 'fill-tr' else '(4)'
        st.cells = ['1 0 %s u=1 imp:n=1' % expr, '3 0 #1 u=1 imp:n=1', '2 0 -9 fill=1 %s imp:n=1' % tr, '4 0 9 imp:n=0']
        st.surfs.append('9 so 50')
        if place == 'fill-trnum':
            st.data = ['tr4 0 1 0 0 1 0 -1 0 0 0 0 1']
    st.fault = None if fault == 'none' else 'macro:%s' % fault
    st.site = mn
    return st


def b_facet_plain(ch):
    """facet suffix on a surface that is not a macrobody (only .1 could make sense; MCNP has no such form)"""
    # (one-sheet cones are left out: the converter represents them by two TRIPOLI-4 surfaces and accepts '.2';
    # a facet suffix on a non-macrobody is not one of the fault classes the property lists)
    mn = ch.choose('mn', ['px', 'so', 'cz', 'kz', 'tz', 'gq'], free=True)
    k = ch.choose('facet', [2, 0, 3, 9], free=True)
    sign = ch.choose('sign', ['-', ''], free=True)
    key = 'kz' if mn == 'kz1' else mn
    p = list(SURF_OK[key]) + ([1] if mn == 'kz1' else [])
    st = one_surface('%s %s' % (key, nums(p)), '%s1.%d' % (sign, k))
    st.fault = 'facet-on-plain-surface'
    st.site = '%s.%d' % (mn, k)
    return st


def b_unknown(ch):
    mn = ch.choose('mn', ['qx', 'pw', 'c/w', 'tor', 'rppp', 'boxx', 'k/', 'xx'], free=True)
    st = one_surface('%s 1 2 3' % mn)
    st.fault = 'unknown-mnemonic'
    st.site = mn
    return st


def b_transform(ch):
    site = ch.choose('site', ['tr-card', 'star-tr-card', 'trcl-inline', 'star-trcl-inline', 'fill-inline',
                              'star-fill-inline', 'tr-card-unused', 'tr-on-surface'], free=True)
    m = ch.choose('m', ['-1', '1'], free=True)
    rot = '1 0 0 0 1 0 0 0 1'
    deg = '0 90 90 90 0 90 90 90 0'
    st = St('c17 m=-1')
    st.cells = ['1 0 -1 imp:n=1', '2 0 1 -2 imp:n=1', '3 0 2 imp:n=0', '11 0 -3 u=4 imp:n=1', '12 0 3 u=4 imp:n=1']
    st.surfs = ['1 so 2', '2 so 9', '3 px 0.5']
    if site == 'tr-card':
        st.cells[0] = '1 0 -1 trcl=7 imp:n=1'; st.data = ['tr7 1 0 0 %s %s' % (rot, m)]
    elif site == 'star-tr-card':
        st.cells[0] = '1 0 -1 trcl=7 imp:n=1'; st.data = ['*tr7 1 0 0 %s %s' % (deg, m)]
    elif site == 'tr-card-unused':
        st.data = ['tr7 1 0 0 %s %s' % (rot, m)]
    elif site == 'tr-on-surface':
        st.surfs[0] = '1 7 so 2'; st.data = ['tr7 1 0 0 %s %s' % (rot, m)]
    elif site == 'trcl-inline':
        st.cells[0] = '1 0 -1 trcl=(1 0 0 %s %s) imp:n=1' % (rot, m)
    elif site == 'star-trcl-inline':
        st.cells[0] = '1 0 -1 *trcl=(1 0 0 %s %s) imp:n=1' % (deg, m)
    elif site == 'fill-inline':
        st.cells[0] = '1 0 -1 fill=4 (1 0 0 %s %s) imp:n=1' % (rot, m)
    else:
        st.cells[0] = '1 0 -1 *fill=4 (1 0 0 %s %s) imp:n=1' % (deg, m)
    st.fault = 'm=-1' if m == '-1' else None
    st.site = site
    return st


def lattice_deck(dims, fillspec, planes8=False):
    st = St('c17 lattice')
    pairs = ['-11 12', '-13 14', '-15 16'][:dims]
    st.cells = ['1 0 -1 fill=2 imp:n=1', '2 0 1 imp:n=0',
                '20 0 %s lat=1 u=2 %s imp:n=1' % (' '.join(pairs), fillspec),
                '31 1 -2.7 -3 u=3 imp:n=1', '32 0 3 u=3 imp:n=1']
    st.surfs = ['1 so 9', '3 px 0.2', '11 px 1', '12 px -1', '13 py 1', '14 py -1', '15 pz 1', '16 pz -1']
    st.data = ['m1 13027 1']
    return st


def b_lattice(ch):
    dims = ch.choose('dims', [2, 1, 3], free=True)
    fault = ch.choose('fault', ['none-array', 'none-option', 'no-option', 'option-other-cell', 'too-few-ranges',
                                'too-many-ranges', 'misplaced-range', 'array-short', 'array-long', 'array-long-tr',
                                'option-too-many', 'option-too-few', 'option-misplaced',
                                'none-like-both-options', 'like-no-option', 'like-option-only-for-copy'], free=True)
    full = {1: '0:1', 2: '0:1 0:1', 3: '0:1 0:1 0:1'}[dims]
    n = 2 ** dims
    opts = []
    if fault == 'none-array':
        spec = 'fill=%s %s' % (full, ' '.join(['3'] * n))
    elif fault == 'none-option':
        spec = 'fill=3'; opts = ['--lattice', '20,' + full.replace(' ', ',')]
    elif fault == 'no-option':
        spec = 'fill=3'
    elif fault in ('none-like-both-options', 'like-no-option', 'like-option-only-for-copy'):
        # a second lattice written as LIKE 20 BUT U=4: each lattice cell needs its own --lattice ranges
        spec = 'fill=3'
        if fault != 'like-option-only-for-copy':
            opts += ['--lattice', '20,' + full.replace(' ', ',')]
        if fault != 'like-no-option':
            opts += ['--lattice', '21,' + full.replace(' ', ',')]
    elif fault == 'option-other-cell':
        spec = 'fill=3'; opts = ['--lattice', '21,' + full.replace(' ', ',')]
    elif fault == 'too-few-ranges':
        if dims == 1:
            ch.reject()
        few = ' '.join(['0:1'] * (dims - 1))
        spec = 'fill=%s %s' % (few, ' '.join(['3'] * (2 ** (dims - 1))))
    elif fault == 'too-many-ranges':
        if dims == 3:
            ch.reject()
        many = ' '.join(['0:1'] * (dims + 1))
        spec = 'fill=%s %s' % (many, ' '.join(['3'] * (2 ** (dims + 1))))
    elif fault == 'misplaced-range':
        if dims == 3:
            ch.reject()
        rr = ['0:1'] * dims
        rr[-1] = '0:0'
        rr.append('0:1')
        spec = 'fill=%s %s' % (' '.join(rr), ' '.join(['3'] * n))
    elif fault == 'array-short':
        spec = 'fill=%s %s' % (full, ' '.join(['3'] * (n - 1)))
    elif fault in ('array-long', 'array-long-tr'):
        spec = 'fill=%s %s' % (full, ' '.join(['3'] * (n + 1)))
    elif fault == 'option-too-many':
        if dims == 3:
            ch.reject()
        spec = 'fill=3'; opts = ['--lattice', '20,' + ','.join(['0:1'] * (dims + 1))]
    elif fault == 'option-too-few':
        if dims == 1:
            ch.reject()
        spec = 'fill=3'; opts = ['--lattice', '20,' + ','.join(['0:1'] * (dims - 1))]
    else:
        if dims == 3:
            ch.reject()
        rr = ['0:1'] * dims
        rr[-1] = '0:0'
        rr.append('0:1')
        spec = 'fill=3'; opts = ['--lattice', '20,' + ','.join(rr)]
    st = lattice_deck(dims, spec)
    if 'like' in fault:
        st.cells[1] = '2 0 1 5 imp:n=0'
        st.cells += ['5 0 -5 fill=4 imp:n=1', '21 like 20 but u=4']
        st.surfs.append('5 s 30 0 0 9')
    if fault == 'array-long-tr':
        # a TR card whose number equals the surplus array entry exists
        st.data.append('tr3 0.5 0 0')
    st.options = opts
    st.fault = None if fault.startswith('none') else 'lattice:' + fault
    st.site = 'dims%d' % dims
    return st


def b_lattice_arg(ch):
    arg = ch.choose('arg', ['20,0:1,0:1', '20;0:1', '20,0-1', 'x,0:1', '20,', '20,0:1,0:1,0:1,0:1', '20,0:1.5',
                            '20,a:1', '20', '20,0:1:2', ',0:1', '20,0:', '2 0,0:1'], free=True)
    st = lattice_deck(2, 'fill=3')
    st.options = ['--lattice', arg]
    st.fault = None if arg == '20,0:1,0:1' else 'lattice-arg'
    st.site = arg
    return st


def b_lat_value(ch):
    """a LAT keyword with a value other than 1 or 2 is a lattice type the converter does not support"""
    val = ch.choose('lat', ['1', '3', '0', '-1', 'x', '2.5'], free=True)
    st = lattice_deck(2, 'fill=0:1 0:1 3 3 3 3')
    st.cells[2] = st.cells[2].replace('lat=1', 'lat=%s' % val)
    st.fault = None if val == '1' else 'lat-value'
    st.site = 'lat=' + val
    return st


def b_cellparam_card(ch):
    """cell parameters that shape the geometry (U, FILL, LAT, TRCL) given on a data card instead of the cell cards:
    MCNP accepts them, the converter does not read them - the run must say so instead of converting another
    geometry"""
    card = ch.choose('card', ['none', 'u 0 0 1 1', 'U 0 1R 1 1R', 'fill 1 0 0 0', '*fill 1 3j', 'lat 0 0 1 0',
                              'trcl 0 0 7 0', '*trcl 0 0 7 0', 'trcl 2j 7 j'], free=True)
    st = St('c17 cell parameters on data cards')
    st.cells = ['1 0 -1 fill=1 imp:n=1', '2 0 1 imp:n=0', '11 1 -2.7 -2 u=1 imp:n=1', '12 0 2 u=1 imp:n=1']
    st.surfs = ['1 so 5', '2 px 0']
    st.data = ['m1 13027 1', 'tr7 1 0 0']
    if card != 'none':
        # the parameter the card gives is removed from the cell cards (giving it twice is an error for MCNP)
        name = card.split()[0].lstrip('*').lower()
        if name == 'u':
            st.cells = [c.replace(' u=1', '') for c in st.cells]
        elif name == 'fill':
            st.cells = [c.replace(' fill=1', '') for c in st.cells]
        st.data.append(card)
    st.fault = None if card == 'none' else 'cell-parameter-data-card'
    st.site = card.split()[0]
    return st


REF_FAULTS = {
    # name: (extra text on cell 1, extra cell cards, field before the mnemonic of surface 1, extra surface cards, extra data)
    'none': ('', [], '', [], []),
    'surface-undefined-tr': ('', [], '7 ', [], []),
    'surface-periodic': ('', [], '-2 ', [], []),
    'trcl-undefined-tr': ('trcl=7', [], '', [], []),
    'fill-undefined-tr': ('fill=1 (7)', ['11 0 -2 u=1 imp:n=1', '12 0 2 u=1 imp:n=1'], '', [], []),
    'fill-missing-universe': ('fill=5', [], '', [], []),
    'like-missing-cell': ('', ['5 like 9 but trcl=(20 0 0)'], '', [], []),
    'undefined-surface': ('-77', [], '', [], []),
    'undefined-cell-in-complement': ('#77', [], '', [], []),
    'undefined-surface-in-moved-cell': ('-77 trcl=(1 0 0)', [], '', [], []),
    'undefined-surface-in-filler': ('fill=1 (1 0 0)', ['11 0 -2 u=1 imp:n=1', '12 0 2 -77 u=1 imp:n=1'], '', [], []),
    'duplicate-cell-number': ('', ['1 0 2 -3 imp:n=1'], '', ['3 px 20'], []),
    'duplicate-surface-number': ('', [], '', ['1 so 6'], []),
    'duplicate-tr-number': ('', [], '8 ', [], ['tr8 1 0 0', 'tr8 2 0 0']),
}


def b_references(ch):
    """numbers that refer to nothing, or that are defined twice (MCNP stops on all of them)"""
    fault = ch.choose('fault', list(REF_FAULTS), free=True)
    on1, cells, trfield, surfs, data = REF_FAULTS[fault]
    st = St('c17 references')
    st.cells = ['1 0 -1 %s imp:n=1' % on1, '2 0 1 imp:n=0'] + cells
    st.surfs = ['1 %sso 5' % trfield, '2 px 0'] + surfs
    st.data = ['m1 13027 1'] + data
    st.fault = None if fault == 'none' else 'reference:' + fault
    st.site = fault
    return st


def b_importance(ch):
    ncells = 4
    fault = ch.choose('fault', ['none', 'imp:p-short', 'imp:p-long', 'imp:n-short-vs-p', 'three-cards',
                                'imp:p-long-jump', 'imp:p-long-2jump', 'imp:n-long-jump-first'], free=True)
    shorthand = ch.choose('shorthand', [False, True], free=True)
    st = St('c17 importances')
    st.cells = ['%d 0 %d -%d' % (10 + i, i + 1, i + 2) for i in range(ncells)]
    st.surfs = ['%d px %d' % (i + 1, 2 * i) for i in range(ncells + 1)]
    n = ['1', '1', '0', '1']
    p = ['1', '0', '0', '1']
    if fault == 'imp:p-short':
        p = p[:-1]
    elif fault == 'imp:p-long':
        p = p + ['1']
    elif fault == 'imp:n-short-vs-p':
        n = n[:-1]
    elif fault == 'imp:p-long-jump':
        p = ['1', 'j', '0', '0', '1']          # one entry too many, one of them a jump
    elif fault == 'imp:p-long-2jump':
        p = ['1', '2j', '0', '0', '1']
    elif fault == 'imp:n-long-jump-first':
        n = ['j'] + n
    if shorthand:
        n = ['1', 'r'] + n[2:]
    st.data = ['imp:n ' + ' '.join(n), 'imp:p ' + ' '.join(p)]
    if fault == 'three-cards':
        st.data.append('imp:e 1 1 1')
    st.fault = None if fault == 'none' else 'imp-length'
    st.site = fault
    return st


def b_fractions(ch):
    k = ch.choose('n', [2, 3, 4], free=True)
    neg = ch.choose('negative-at', ['none', 'all'] + list(range(4)), free=True)
    if isinstance(neg, int) and neg >= k:
        ch.reject()
    zaids = ['1001', '8016', '26056', '92235'][:k]
    fr = ['0.5', '0.25', '2e-2', '1.'][:k]
    if neg == 'all':
        fr = ['-' + f for f in fr]
    elif neg != 'none':
        fr[neg] = '-' + fr[neg]
    st = St('c17 fractions')
    st.cells = ['1 1 -2.5 -1 imp:n=1', '2 0 1 imp:n=1']
    st.surfs = ['1 so 4']
    st.data = ['m1 ' + ' '.join('%s %s' % zf for zf in zip(zaids, fr))]
    st.fault = 'mixed-signs' if isinstance(neg, int) else None
    st.site = str(neg)
    return st


def scenarios(tier):
    return [
        Scn('surface-params', b_surface_params, None, None, 'every elementary mnemonic, one too few / one too many'),
        Scn('macro-params', b_macro_params, None, None, 'every macrobody: parameter counts and facet indices'),
        Scn('unknown-mnemonic', b_unknown, None, None, ''),
        Scn('facet-plain', b_facet_plain, None, None, 'facet index other than 1 on an elementary surface'),
        Scn('m=-1', b_transform, None, None, 'TR / TRCL / FILL with m=-1 at every site'),
        Scn('lattice', b_lattice, None, None, 'missing option, wrong cell, wrong dimensionality, array length'),
        Scn('lattice-arg', b_lattice_arg, None, None, 'malformed --lattice strings'),
        Scn('lat-value', b_lat_value, None, None, 'LAT values other than 1 and 2'),
        Scn('references', b_references, None, None, 'undefined or doubly defined numbers'),
        Scn('cell-parameter-cards', b_cellparam_card, None, None, 'U / FILL / LAT / TRCL given on data cards'),
        Scn('importance', b_importance, None, None, 'IMP cards of unequal length'),
        Scn('fractions', b_fractions, None, None, 'mixed-sign material fractions'),
    ]


def check_state(scn, st):
    r = env.run(st.deck_text, st.options)
    if st.fault is None:
        if r.ok:
            return verdict(True, st, out=sha(r.body), nontrivial=False, stats={'base_decks_converted': 1})
        return verdict(False, st, cls={'kind': 'base-deck-fails', 'scenario': scn, 'exc': r.exc_type},
                       msg='the un-faulted deck does not convert: %s\n%s' % (r.brief(), st.deck_text),
                       out='err:' + r.exc_type)
    stats = {'fault_classes': {st.fault}}
    if r.ok:
        return verdict(False, st, cls={'kind': 'fault-accepted', 'fault': st.fault, 'site': st.site},
                       msg='fault %s at %s: the conversion finished normally\n%s %s\n%s'
                       % (st.fault, st.site, st.options, st.deck_text, r.body[:1200]), out=sha(r.body), stats=stats)
    if not (r.exc_msg or '').strip():
        return verdict(False, st, cls={'kind': 'empty-message', 'fault': st.fault, 'exc': r.exc_type},
                       msg='fault %s: error %s without a message' % (st.fault, r.exc_type), out='err:' + r.exc_type,
                       stats=stats)
    stats['error_types'] = {r.exc_type}
    # a built-in exception type that the interpreter raised underneath the converter (`KeyError: 77`) does not
    # name the problem; the same type raised by the converter's own `raise` with a sentence of its own does
    worded = bool(r.deliberate) and len((r.exc_msg or '').split()) >= 3
    if r.exc_type in RAW_ERRORS and not worded:
        return verdict(False, st, cls={'kind': 'unnamed-error', 'fault': st.fault, 'exc': r.exc_type},
                       msg='fault %s at %s stops the run with a bare %s: %s (the problem is not named)\n%s'
                       % (st.fault, st.site, r.exc_type, r.exc_msg, st.deck_text), out='err:' + r.exc_type,
                       stats=stats)
    return verdict(True, st, out='err:' + r.exc_type, stats=stats)


def canaries():
    from ..explore import PresetChooser
    st = b_surface_params(PresetChooser({}))
    ok = check_state('surface-params', st)['ok']
    st2 = b_surface_params(PresetChooser({}))
    st2.fault = 'declared-faulty-although-valid'      # a finished conversion of a "faulty" deck must be reported
    return [('c17-baseline', ok), ('c17-accepted-fault-detected', not check_state('surface-params', st2)['ok'])]


def finish(agg, tier):
    if agg['stats'].get('base_decks_converted', 0) < 30:
        raise Vacuous('too few un-faulted base decks converted (%s)' % agg['stats'].get('base_decks_converted'))
    return {'fault_classes': sorted(agg['stats'].get('fault_classes', ())),
            'error_types': sorted(agg['stats'].get('error_types', ()))}
