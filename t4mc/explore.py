"""E1: stateless choice-tree explorer with deviation bounding.

A scenario is a function build(ch) that makes every decision through
ch.choose(label, options); options[0] is the default (simplest) answer.  The
explorer enumerates *all* choice sequences whose number of non-default answers
(deviations) is within a bound, level by level (0 deviations, then 1, ...), by
prefix replay: run a prefix, answer 0 afterwards, then branch on every later
choice point.  A replayed choice that is out of range is a hard error.
`free=True` choice points cost no deviation (they are always fully enumerated).
"""


class Inadmissible(Exception):
    """Raised by a scenario for a combination it does not want to generate."""


class ReplayDivergence(Exception):
    pass


class Chooser:
    def __init__(self, prefix=()):
        self.prefix = tuple(prefix)
        self.trace = []
        self.sizes = []
        self.free = []
        self.labels = []
        self.cost = 0

    def choose(self, label, options, free=False):
        options = list(options)
        if not options:
            raise ValueError('empty option list at %s' % label)
        i = len(self.trace)
        if i < len(self.prefix):
            k = self.prefix[i]
            if not 0 <= k < len(options):
                raise ReplayDivergence('choice %d at %s out of range (%d options)'
                                       % (k, label, len(options)))
        else:
            k = 0
        self.trace.append(k)
        self.sizes.append(len(options))
        self.free.append(bool(free))
        self.labels.append(label)
        if k and not free:
            self.cost += 1
        return options[k]

    def flag(self, label, free=False):
        return self.choose(label, (False, True), free=free)

    def reject(self, why=''):
        raise Inadmissible(why)

    def described(self):
        return [(l, k) for l, k in zip(self.labels, self.trace) if k]


class PresetChooser(Chooser):
    """Answers the labelled choice points from a dictionary (label -> index), 0 elsewhere; used for canaries
    so that they do not depend on the position of a choice point in the trace."""

    def __init__(self, preset):
        super().__init__(())
        self.preset = dict(preset)

    def choose(self, label, options, free=False):
        options = list(options)
        k = self.preset.get(label, 0)
        self.trace.append(k); self.sizes.append(len(options)); self.free.append(bool(free))
        self.labels.append(label)
        if k and not free:
            self.cost += 1
        return options[k]


class LevelEnumerator:
    """Enumerates the traces of one scenario by increasing deviation count."""

    def __init__(self, build, max_cost=None):
        self.build = build
        self.max_cost = max_cost
        self.buckets = {0: [()]}
        self.executions = 0
        self.edges = 0
        self.choice_points = 0
        self.inadmissible = 0
        self.completed = -1
        self.exhausted = False
        self.truncated = False   # some branch was cut by max_cost

    def level(self, cost):
        """Yield every admissible full trace with exactly `cost` deviations."""
        bucket = self.buckets.setdefault(cost, [])
        while bucket:
            prefix = bucket.pop()
            ch = Chooser(prefix)
            ok = True
            try:
                self.build(ch)
            except Inadmissible:
                ok = False
                self.inadmissible += 1
            if len(ch.trace) < len(prefix):
                raise ReplayDivergence('prefix %r not consumed (%d points)' % (prefix, len(ch.trace)))
            assert ch.cost == cost, (ch.cost, cost, prefix)
            for i in range(len(prefix), len(ch.trace)):
                c2 = cost + (0 if ch.free[i] else 1)
                if self.max_cost is not None and c2 > self.max_cost:
                    if ch.sizes[i] > 1:
                        self.truncated = True
                    continue
                tgt = self.buckets.setdefault(c2, [])
                base = tuple(ch.trace[:i])
                for alt in range(1, ch.sizes[i]):
                    tgt.append(base + (alt,))
                    self.edges += 1
            self.choice_points += len(ch.trace) - len(prefix)
            if ok:
                self.executions += 1
                yield tuple(ch.trace)
        del self.buckets[cost]
        self.completed = cost
        if not any(self.buckets.values()):
            self.exhausted = True

    def pending(self):
        return sorted(c for c, b in self.buckets.items() if b)


def full_product(build):
    """All traces of a scenario (no bound)."""
    en = LevelEnumerator(build, None)
    cost = 0
    while not en.exhausted:
        for t in en.level(cost):
            yield t
        cost += 1
