"""Execution driver: runs the *real* converter entry points on one deck.

The only substitution is the third-party TatSu parser object (see pegshim.py);
everything else executed here is the repository's code taken from the working
tree (or from $T4MC_REPO when a scratch copy must be checked).
"""
import contextlib
import io
import os
import shutil
import sys
import tempfile
import warnings
import atexit

REPO = os.environ.get('T4MC_REPO', '/repo')
os.environ.setdefault('T4GC_VERIF', '1')
if REPO not in sys.path[:1]:
    sys.path.insert(0, REPO)

_installed = False
_scratch = None


_scratch_pid = None


def scratch_base():
    """Private scratch directory of this run (tmpfs when available); created
    by the top-level process, shared through T4MC_SCRATCH, removed on exit."""
    base = os.environ.get('T4MC_SCRATCH')
    if base and os.path.isdir(base):
        return base
    root = '/dev/shm' if os.access('/dev/shm', os.W_OK) else None
    base = tempfile.mkdtemp(prefix='t4mc-', dir=root)
    os.environ['T4MC_SCRATCH'] = base
    atexit.register(shutil.rmtree, base, True)
    return base


def scratch_dir():
    """Per-process sub-directory of the scratch base."""
    global _scratch, _scratch_pid
    if _scratch is None or _scratch_pid != os.getpid() or not os.path.isdir(_scratch):
        _scratch = os.path.join(scratch_base(), 'p%d' % os.getpid())
        os.makedirs(_scratch, exist_ok=True)
        _scratch_pid = os.getpid()
    return _scratch


def install():
    """Import the converter from REPO and install the PEG shim."""
    global _installed
    if _installed:
        return
    from . import pegshim
    pegshim.install()
    import t4_geom_convert
    root = os.path.dirname(os.path.dirname(os.path.abspath(t4_geom_convert.__file__)))
    if os.path.realpath(root) != os.path.realpath(REPO):
        raise RuntimeError('converter imported from %s, expected %s' % (root, REPO))
    _installed = True


class Result:
    __slots__ = ('kind', 't4', 'exc_type', 'exc_msg', 'stdout', 'warnings',
                 'input_unchanged', 'body', 'deliberate')

    def __init__(self, **kw):
        for k in self.__slots__:
            setattr(self, k, kw.get(k))

    @property
    def ok(self):
        return self.kind == 'ok'

    def brief(self):
        if self.ok:
            return 'ok'
        return '%s: %s' % (self.exc_type, (self.exc_msg or '')[:200])


def strip_header(text):
    """Remove the three header comment lines (version + argv echo)."""
    lines = text.split('\n')
    i = 0
    while i < len(lines) and lines[i].startswith('//'):
        i += 1
    return '\n'.join(lines[i:])


def run(deck_text, options=(), name='deck', encoding=None, keep=False):
    """Convert deck_text with the given extra command-line options.

    Returns a Result. `options` never contains the input/output paths.
    """
    install()
    import t4_geom_convert.main as t4main
    d = scratch_dir()
    ipath = os.path.join(d, name + '.imcnp')
    opath = os.path.join(d, name + '.t4')
    data = deck_text.encode(encoding or 'utf-8') if isinstance(deck_text, str) else deck_text
    with open(ipath, 'wb') as f:
        f.write(data)
    if os.path.exists(opath):
        os.remove(opath)
    out = io.StringIO()
    saved_argv = sys.argv
    # the real command-line entry point: main() reads sys.argv
    sys.argv = ['t4_geom_convert', '-o', opath, ipath] + list(options)
    res = Result(kind='ok', warnings=[])
    try:
        with warnings.catch_warnings(record=True) as wrec:
            warnings.simplefilter('always')
            with contextlib.redirect_stdout(out), contextlib.redirect_stderr(out):
                try:
                    t4main.main()
                except SystemExit as e:
                    if e.code not in (0, None):
                        res.kind = 'error'
                        res.exc_type = 'SystemExit'
                        res.exc_msg = str(e.code)
                except RecursionError as e:
                    res.kind = 'error'
                    res.exc_type = 'RecursionError'
                    res.exc_msg = str(e)
                except Exception as e:  # noqa
                    res.kind = 'error'
                    res.exc_type = type(e).__name__
                    res.exc_msg = str(e)
                    # raised by a `raise` statement of the converter itself (and not by the interpreter
                    # underneath it, as in `KeyError: 77` out of a dictionary lookup)?
                    try:
                        import traceback
                        last = traceback.extract_tb(e.__traceback__)[-1]
                        res.deliberate = (os.path.realpath(last.filename).startswith(os.path.realpath(REPO))
                                          and (last.line or '').strip().startswith('raise'))
                    except Exception:  # noqa
                        res.deliberate = False
            res.warnings = [str(w.message) for w in wrec]
    finally:
        sys.argv = saved_argv
    res.stdout = out.getvalue()
    if res.kind == 'ok':
        try:
            with open(opath, encoding=encoding or 'utf-8') as f:
                res.t4 = f.read()
            res.body = strip_header(res.t4)
        except OSError as e:
            res.kind = 'error'
            res.exc_type = 'NoOutput'
            res.exc_msg = str(e)
    with open(ipath, 'rb') as f:
        res.input_unchanged = (f.read() == data)
    if not keep:
        for p in (ipath, opath):
            try:
                os.remove(p)
            except OSError:
                pass
    return res
