"""Hierarchical abstract decks (universes, FILL, TRCL, lattices): rendering and
the reference point-location semantics `locate`.  Does not import the converter.
"""
import itertools

import numpy as np

from . import refsem
from .deck import Deck, render_expr, holds, fmt


def clean(x):
    return 0.0 if abs(x) < 1e-15 else float(x)


def tr_numbers(m, degrees=False):
    return ' '.join(fmt(clean(x)) for x in m.card_entries(degrees))


def renum_expr(t, smap, cmap):
    g = lambda m, k: m.get(k, k)
    if isinstance(t, (int, np.integer)):
        return g(smap, abs(int(t))) * (1 if t > 0 else -1)
    if t[0] == 'f':
        return ('f', g(smap, abs(t[1])) * (1 if t[1] > 0 else -1), t[2])
    if t[0] == '#':
        return ('#', renum_expr(t[1], smap, cmap))
    if t[0] == '^':
        return ('^', g(cmap, t[1]))
    return (t[0], renum_expr(t[1], smap, cmap), renum_expr(t[2], smap, cmap))


class Tr:
    """A transformation together with its spelling on the card."""

    def __init__(self, motion, spelling='inline', number=None):
        self.motion, self.spelling, self.number = motion, spelling, number

    def paren(self, tmap=None):
        """text that goes inside ( ) after FILL=n or TRCL=, and whether starred"""
        if self.spelling == 'number':
            return str((tmap or {}).get(self.number, self.number)), False
        if self.spelling == 'inline3':
            return ' '.join(fmt(clean(x)) for x in self.motion.O), False
        if self.spelling == 'star':
            return tr_numbers(self.motion, True), True
        if self.spelling == 'inline-dot':
            # the same numbers the way they are often typed: no leading zero, explicit plus sign
            def dot(t):
                if t.startswith('0.'):
                    return t[1:]
                if t.startswith('-0.'):
                    return '-' + t[2:]
                return t if t.startswith('-') or t == '0' else '+' + t
            return ' '.join(dot(t) for t in tr_numbers(self.motion).split()), False
        return tr_numbers(self.motion), False


class HCell:
    def __init__(self, num, expr, mat=0, rho=None, imp=1, u=0, fill=None, filltr=None, trcl=None,
                 lat=None, ranges=None, array=None, like=None):
        self.num, self.expr, self.mat, self.rho, self.imp, self.u = num, expr, mat, rho, imp, u
        self.fill, self.filltr, self.trcl = fill, filltr, trcl
        self.lat, self.ranges, self.array = lat, ranges, array   # ranges: [(lo,hi)]*3, array: flat list
        self.base = None    # lattice base vectors (reference), list of 3-vectors (len = dims)

    def card(self, deck=None):
        smap = getattr(deck, 'smap', {}); cmap = getattr(deck, 'cmap', {})
        umap = getattr(deck, 'umap', {}); tmap = getattr(deck, 'tmap', {})
        mat = '0' if not self.mat else '%d %s' % (self.mat, self.rho)
        head = '%d %s %s' % (cmap.get(self.num, self.num), mat, render_expr(renum_expr(self.expr, smap, cmap)))
        parts = {}
        if self.u:
            # a negative universe number means the same universe (MCNP: the cell is known not to be cut by the
            # container, which the reference does not rely on)
            parts['u'] = 'u=%s%d' % ('-' if getattr(self, 'u_negative', False) else '', umap.get(self.u, self.u))
        if self.lat:
            parts['lat'] = 'lat=%d' % self.lat
        if self.fill is not None or self.array is not None:
            star = ''
            tail = ''
            if self.filltr is not None:
                txt, st = self.filltr.paren(tmap)
                star = '*' if st else ''
                tail = ' (%s)' % txt
            if self.array is not None and not getattr(self, 'single', False):
                rng = ' '.join('%d:%d' % r for r in self.ranges)
                parts['fill'] = '%sfill=%s %s%s' % (star, rng, ' '.join(str(umap.get(x, x)) for x in self.array), tail)
            else:
                parts['fill'] = '%sfill=%d%s' % (star, umap.get(self.fill, self.fill), tail)
        if self.trcl is not None:
            txt, st = self.trcl.paren(tmap)
            if self.trcl.spelling == 'number':
                parts['trcl'] = 'trcl=%s' % txt
            else:
                parts['trcl'] = '%strcl=(%s)' % ('*' if st else '', txt)
        parts['imp'] = 'imp:n=%d' % self.imp
        order = getattr(self, 'kw_order', None) or ['u', 'lat', 'fill', 'trcl', 'imp']
        return ' '.join([head] + [parts[k] for k in order if k in parts])


def group_pairs(lits, mode):
    """the intersection of the listed surfaces written flat, with the 2nd, 3rd, ... pairs in parentheses, or with
    the 2nd pair as the complement of a union (the same region in every case, the same listing order)"""
    if mode == 'flat' or len(lits) < 4:
        e = lits[0]
        for l in lits[1:]:
            e = ('*', e, l)
        return e
    e = ('*', lits[0], lits[1])
    for k in range(2, len(lits) - 1, 2):
        pair = ('*', lits[k], lits[k + 1])
        if mode == 'complement' and k == 2:
            pair = ('#', (':', -lits[k], -lits[k + 1]))
        e = ('*', e, pair)
    if len(lits) % 2:
        e = ('*', e, lits[-1])
    return e


class HDeck(Deck):
    def __init__(self, title='t4mc hierarchical deck'):
        super().__init__(title)
        self.hcells = []          # in card order
        self.refsurfs = {}        # number -> RefSurf
        self.surfcards = {}       # number -> card text (without number)
        self.trcards = {}         # number -> (Motion, starred)
        self.mats = {}            # number -> card text
        # optional renumbering applied when the deck is rendered (the reference keeps its own numbers)
        self.cmap, self.smap, self.umap, self.tmap = {}, {}, {}, {}

    def add_surface(self, num, mn, params):
        self.refsurfs[num] = refsem.mcnp_surface(mn, params)
        shift = getattr(self, 'shift', None)
        if shift is not None:
            # the deck is written far from the origin (x -> x + shift); the reference stays where it is and the
            # output is pulled back before it is compared (only decks whose motions are translations)
            if mn != 'p' or len(params) != 4:
                raise ValueError('a shifted deck is written with general planes only')
            n = np.array(params[:3], float)
            params = list(params[:3]) + [params[3] + float(n @ np.asarray(shift, float))]
        self.surfcards[num] = mn + ' ' + ' '.join(fmt(x) for x in params)

    def add_cell(self, cell):
        self.hcells.append(cell)
        return cell

    def cell(self, num):
        for c in self.hcells:
            if c.num == num:
                return c
        raise KeyError(num)

    def universe(self, u):
        return [c for c in self.hcells if c.u == u]

    def finish(self):
        order = list(self.hcells)
        how = getattr(self, 'card_order', 'given')
        if how == 'reversed':
            order = order[::-1]
        elif how == 'interleaved':
            # round-robin over the universes: the cards of one universe are not contiguous in the deck
            byu = {}
            for c in order:
                byu.setdefault(c.u, []).append(c)
            order = []
            k = 0
            while any(byu.values()):
                for u in sorted(byu, key=lambda x: (x == 0, x)):
                    if byu[u]:
                        order.append(byu[u].pop(0))
                k += 1
        self.cells = [c.card(self) for c in order]
        self.surfs = []
        for n, t in sorted(self.surfcards.items(), key=lambda kv: str(kv[0])):
            if not isinstance(n, int):
                continue
            # a card text may start with a TR number ('7 tz ...')
            mm = __import__('re').match(r'^(\d+) ([a-zA-Z/].*)$', t)
            if mm:
                t = '%d %s' % (self.tmap.get(int(mm.group(1)), int(mm.group(1))), mm.group(2))
            self.surfs.append('%d %s' % (self.smap.get(n, n), t))
        self.data = []
        for n, (m, star) in sorted(self.trcards.items()):
            self.data.append(('*tr%d ' if star else 'tr%d ') % self.tmap.get(n, n) + tr_numbers(m, star))
        for n, t in sorted(self.mats.items()):
            self.data.append('m%d %s' % (n, t))
        return self

    # ------------------------------------------------------------------
    # reference semantics

    def _sense(self, Q):
        cache = {}

        def sense(lit):
            if lit not in cache:
                cache[lit] = self.refsurfs[lit].pos(Q)
            return cache[lit]
        return sense

    def _cell_exprs(self):
        return {c.num: c.expr for c in self.hcells}

    def cell_holds(self, cell, Q):
        """membership of universe-frame points Q in the cell's own region; '#n'
        inside an expression denotes the complement of cell n's region, the
        TRCL of cell n included (it is not moved by the TRCL of the referring cell)"""
        Qc = cell.trcl.motion.inverse_points(Q) if cell.trcl is not None else Q
        sense = self._sense(Qc)

        def ev(t):
            if isinstance(t, (int, np.integer)):
                v = sense(abs(int(t)))
                return v if t > 0 else ~v
            op = t[0]
            if op == 'f':
                v = sense(('f', abs(t[1]), t[2]))
                return v if t[1] > 0 else ~v
            if op == '#':
                return ~ev(t[1])
            if op == '^':
                return ~self.cell_holds(self.cell(t[1]), Q)
            a, b = ev(t[1]), ev(t[2])
            return (a & b) if op == '*' else (a | b)
        return ev(cell.expr)

    def on_surface(self, P, tol=1e-7):
        """points of P lying (numerically) on some surface at level 0"""
        bad = np.zeros(len(P), bool)
        for s in self.refsurfs.values():
            for f, d in s.comps:
                bad |= np.abs(f(P)) < tol
        return bad

    def all_ref_planes(self):
        """(n, d) of every plane surface in every frame it is used in
        (accumulated FILL / TRCL motions, lattice translations), level-0
        coordinates.  Independent of the written file."""
        out = []
        ident = refsem.Motion()

        def plane_nd(rs):
            f = rs.comps[0][0]
            z = np.zeros((1, 3))
            dd = f(z)[0]
            nn = np.array([f(np.eye(3)[i:i + 1])[0] - dd for i in range(3)])
            return nn, dd

        def surf_nums(t, acc):
            if isinstance(t, (int, np.integer)):
                acc.add(abs(int(t)))
            elif t[0] == 'f':
                acc.add(('f', abs(t[1]), t[2]))
            elif t[0] == '#':
                surf_nums(t[1], acc)
            elif t[0] == '^':
                pass
            else:
                surf_nums(t[1], acc); surf_nums(t[2], acc)

        def walk(u, A, depth):
            if depth > 40:
                return
            for c in self.universe(u):
                M = c.trcl.motion.then(A) if c.trcl is not None else A
                nums = set()
                surf_nums(c.expr, nums)
                shifts = [np.zeros(3)]
                if c.lat:
                    rng = list(c.ranges) + [(0, 0)] * (3 - len(c.ranges))
                    shifts = []
                    for k in range(rng[2][0], rng[2][1] + 2):
                        for j in range(rng[1][0], rng[1][1] + 2):
                            for i in range(rng[0][0], rng[0][1] + 2):
                                L = np.zeros(3)
                                for dd_, ind in zip(range(len(c.base)), (i, j, k)):
                                    L = L + ind * np.asarray(c.base[dd_], float)
                                shifts.append(L)
                for L in shifts:
                    ML = refsem.Motion(L).then(M)
                    for nsurf in nums:
                        rs = self.refsurfs[nsurf]
                        if all(d == 1 for _, d in rs.comps):
                            for comp in rs.comps:
                                out.append(plane_nd(refsem.RefSurf([comp], None).moved(ML)))
                    if c.fill is not None or c.array is not None:
                        T = c.filltr.motion if c.filltr is not None else (
                            c.trcl.motion if c.trcl is not None else ident)
                        if c.lat:
                            # frame of the universe in element L (same rule as _locate_lattice): with a FILL
                            # transformation x = filltr(x_u) + L (L rotated by the lattice TRCL); without one
                            # the universe moves with the lattice cell, x = trcl(x_u + L)
                            if c.filltr is not None:
                                Lm = L @ c.trcl.motion.B if c.trcl is not None else L
                                frame = c.filltr.motion.then(refsem.Motion(Lm)).then(A)
                            elif c.trcl is not None:
                                frame = refsem.Motion(L).then(c.trcl.motion).then(A)
                            else:
                                frame = refsem.Motion(L).then(A)
                            for uni in sorted(set(c.array)):
                                if uni and uni != c.u:
                                    walk(uni, frame, depth + 1)
                        else:
                            walk(c.fill, T.then(A), depth + 1)
        walk(0, ident, 0)
        return out

    def locate(self, P):
        """For every point: the chain of cells [c0, c1, ..., filler] (level 0
        first) or None where no cell owns the point; plus multiplicity errors."""
        n = len(P)
        chains = [None] * n
        problems = []
        self._locate(0, P, np.arange(n), (), chains, problems, 0)
        return chains, problems

    def _locate(self, u, Q, idx, chain, chains, problems, depth):
        if depth > 40:
            raise RuntimeError('universe recursion too deep')
        cells = self.universe(u)
        count = np.zeros(len(Q), int)
        for c in cells:
            if c.lat:
                self._locate_lattice(c, Q, idx, chain, chains, problems, depth, count)
                continue
            m = self.cell_holds(c, Q)
            count += m
            if not m.any():
                continue
            if c.fill is not None:
                T = c.filltr.motion if c.filltr is not None else (
                    c.trcl.motion if c.trcl is not None else None)
                Q2 = T.inverse_points(Q[m]) if T is not None else Q[m]
                self._locate(c.fill, Q2, idx[m], chain + (c.num,), chains, problems, depth + 1)
            else:
                for i in idx[m]:
                    if chains[i] is not None:
                        problems.append('point %d owned twice' % i)
                    chains[i] = chain + (c.num,)
        if (count > 1).any():
            problems.append('universe %d: %d points in more than one cell' % (u, int((count > 1).sum())))

    def _locate_lattice(self, c, Q, idx, chain, chains, problems, depth, count):
        """Lattice cell c of universe c.u: elements (i,j,k) over the declared
        ranges; element = unit cell + i a1 + j a2 + k a3."""
        base = c.base
        rng = list(c.ranges) + [(0, 0)] * (3 - len(c.ranges))
        sizes = [hi - lo + 1 for lo, hi in rng]
        Tfill = c.filltr.motion if c.filltr is not None else (
            c.trcl.motion if c.trcl is not None else None)
        for kk, k in enumerate(range(rng[2][0], rng[2][1] + 1)):
            for jj, j in enumerate(range(rng[1][0], rng[1][1] + 1)):
                for ii, i in enumerate(range(rng[0][0], rng[0][1] + 1)):
                    ind = (i, j, k)
                    L = np.zeros(3)
                    for d in range(len(base)):
                        L = L + ind[d] * np.asarray(base[d], float)
                    # the lattice cell's own TRCL moves the whole lattice
                    Lm = L
                    if c.trcl is not None:
                        Lm = L @ c.trcl.motion.B      # rotate the translation into the moved frame
                    m = self.cell_holds(c, Q - Lm)
                    count += m
                    if not m.any():
                        continue
                    uni = c.array[ii + sizes[0] * (jj + sizes[1] * kk)]
                    if uni == 0:
                        continue
                    if uni == c.u:
                        for p in idx[m]:
                            chains[p] = chain + (('lat', c.num, ind),)
                        continue
                    Q2 = Q[m] - Lm
                    if Tfill is not None:
                        Q2 = Tfill.inverse_points(Q2)
                    self._locate(uni, Q2, idx[m], chain + (('lat', c.num, ind),), chains, problems,
                                 depth + 1)


def provenance_label(chain, cmap=None):
    """Volume comment pairs the converter documents for a chain of plain cells:
    innermost first, (filler, container) per level (rendered cell numbers)."""
    if chain is None:
        return None
    g = (lambda k: cmap.get(k, k)) if cmap else (lambda k: k)
    if len(chain) == 1:
        return ('cell', g(chain[0]))
    f = g(chain[-1])
    return tuple((f, g(c)) for c in reversed(chain[:-1]))


def t4_label(t4, vid):
    prov = t4.provenance(vid)
    if not prov:
        return ('cell', vid)
    return tuple(prov)
