"""setup_cmd: self-tests of the trusted harness parts."""
import sys

import numpy as np


def main():
    from . import env, pegshim, t4read, geomdecide
    env.install()
    n = pegshim.selftest()
    print('peg shim table: %d expressions ok' % n)
    # reader canaries
    txt = ('GEOMETRY\nSURF 1 PLANEX 1.0\nSURF 2 SPHERE 0 0 0 2.0\n'
           'VOLU 1 EQUA PLUS 1 1 MINUS 1 2 ENDV\nVOLU 2 EQUA MINUS 1 1 UNION 1 3 ENDV\nENDG\n')
    t4 = t4read.parse(txt)
    rules = sorted(set(r for r, _ in t4.problems))
    assert rules == ['dangling-ref'], rules
    t4 = t4read.parse(txt.replace('UNION 1 3', 'UNION 1 1'))
    assert not t4.problems, t4.problems
    E = t4read.Evaluator(t4, np.array([[1.5, 0, 0], [0.5, 0, 0], [3, 0, 0]]))
    assert E.inside(1).tolist() == [True, False, False]
    assert E.inside(2).tolist() == [True, True, False]
    t4 = t4read.parse(txt.replace('PLUS 1 1 MINUS 1 2', 'PLUS 1 1 MINUS 2 1 None'))
    assert {'id-field', 'both-sides'} <= set(r for r, _ in t4.problems), t4.problems
    print('t4 reader canaries ok')
    rng = np.random.default_rng(1)
    for k in (3, 5, 8):
        pl = [(rng.normal(size=3), rng.normal()) for _ in range(k)]
        W = geomdecide.witnesses(pl, eps=1e-4)
        assert len(geomdecide.sign_vectors(W, pl)) == geomdecide.expected_cells_generic(k)
    pl = ([((1, 0, 0), -x) for x in (0, 1, 2)] + [((0, 1, 0), -y) for y in (0, 1, 2)]
          + [((0, 0, 1), -z) for z in (0, 5)])
    assert len(geomdecide.sign_vectors(geomdecide.witnesses(pl), pl)) == 48
    print('arrangement witnesses ok')
    f = lambda P: 2 * (P[:, 0] ** 2 + P[:, 1] ** 2 - 4)
    g = lambda P: P[:, 0] ** 2 + P[:, 1] ** 2 - 4
    h = lambda P: P[:, 0] ** 2 + P[:, 2] ** 2 - 4
    assert abs(geomdecide.identify(f, g, 2) - 2) < 1e-12 and geomdecide.identify(f, h, 2) is None
    print('polynomial identification ok')
    r = env.run('t\n1 0 -1 imp:n=1\n2 0 1 imp:n=1\n\n1 so 1\n\n')
    assert r.ok, r.brief()
    print('converter runs from', env.REPO)
    return 0


sys.exit(main())
