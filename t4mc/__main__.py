import argparse
import os
import sys


def main():
    ap = argparse.ArgumentParser(prog='check')
    ap.add_argument('id')
    ap.add_argument('--tier', default=os.environ.get('VERIF_TIER', 'quick'),
                    choices=['quick', 'thorough'])
    ap.add_argument('--replay')
    a = ap.parse_args()
    seed = int(os.environ.get('VERIF_SEED', '0') or 0)
    from . import runner
    mod_id = a.id.upper()
    if a.replay:
        sys.exit(runner.replay(mod_id, a.replay))
    try:
        rc = runner.main(mod_id, a.tier, seed)
    except Exception:
        import traceback
        traceback.print_exc()
        print('HARNESS-ERROR: unexpected exception in the harness')
        rc = 2
    sys.exit(rc)


main()
