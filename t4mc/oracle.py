"""Comparison of a written file with reference point ownership."""
import numpy as np

from . import geomdecide, t4read


def structural_cls(t4, options=None):
    """Classification of the first structural problem, or None.  When the command-line options are given, the
    sections that those options do not switch off must be present."""
    if options is not None:
        opts = list(options)
        if '--skip-geomcomp' not in opts and 'GEOMCOMP' not in t4.sections and t4.nonvirtual():
            t4.problem('missing-section', 'no GEOMCOMP block although --skip-geomcomp was not given')
        if '--skip-compositions' not in opts and 'COMPOSITION' not in t4.sections:
            t4.problem('missing-section', 'no COMPOSITION block although --skip-compositions was not given')
        if 'GEOMETRY' not in t4.sections:
            t4.problem('missing-section', 'no GEOMETRY block')
    if not t4.problems:
        return None, ''
    rule, detail = t4.problems[0]
    return {'kind': 'structural', 'rule': rule}, '; '.join('%s: %s' % p for p in t4.problems[:5])


def probe_points(t4, ref_planes=(), curved=False, lattice=None):
    """Witness points for the joint arrangement of all plane SURFs of the file
    and the reference planes; refined by a lattice when curved surfaces are
    present.  Returns (P, info)."""
    planes = list(t4read.planes_of(t4)) + list(ref_planes)
    W = geomdecide.witnesses(planes)
    info = {'plane_witnesses': len(W), 'planes': len(geomdecide.cluster(planes))}
    if curved or not t4read.all_planes(t4):
        L = lattice if lattice is not None else geomdecide.lattice_points()
        W = np.vstack([W, L])
        info['lattice_points'] = len(L)
        info['complete'] = False
    else:
        info['complete'] = True
    return W, info


def ownership(t4, P, label_of=None):
    """For every point: (number of non-virtual volumes containing it, label of
    one of them or None)."""
    E = t4read.Evaluator(t4, P)
    cnt = np.zeros(len(P), int)
    lab = np.full(len(P), None, object)
    for v in t4.nonvirtual():
        m = E.inside(v)
        cnt += m
        L = label_of(v) if label_of else v
        for i in np.flatnonzero(m):
            lab[i] = L
    return cnt, lab, E


def compare_owner(t4, P, expected, label_of=None, max_report=3):
    """expected: object array, None where no volume may contain the point.
    Returns list of textual mismatches (empty = agreement)."""
    cnt, lab, E = ownership(t4, P, label_of)
    bad = []
    exp_some = np.array([e is not None for e in expected])
    wrong = np.where(exp_some & (cnt != 1))[0]
    for i in wrong[:max_report]:
        bad.append('point %s: expected exactly one volume (%s), %d contain it'
                   % (np.round(P[i], 6).tolist(), expected[i], cnt[i]))
    wrong = np.where(~exp_some & (cnt != 0))[0]
    for i in wrong[:max_report]:
        bad.append('point %s: expected no volume, %d contain it (e.g. %s)'
                   % (np.round(P[i], 6).tolist(), cnt[i], lab[i]))
    one = np.where(exp_some & (cnt == 1))[0]
    mism = [i for i in one if lab[i] != expected[i]]
    for i in mism[:max_report]:
        bad.append('point %s: owner should be %s, file says %s'
                   % (np.round(P[i], 6).tolist(), expected[i], lab[i]))
    return bad


def t4_surface_fn(t4, sid):
    """Function P -> value of SURF sid (TRANSFORM applied)."""
    kind, p, tr = t4.surfs[sid]

    def f(P):
        Q = P
        if tr is not None:
            t = t4.transforms[tr]
            M = np.array(t[3:]).reshape(3, 3)
            Q = (P - np.array(t[:3])) @ M
        return t4read.surf_f(kind, p, Q)
    return f, t4read.surf_degree(kind)


def used_surfaces(t4):
    """SURF ids reachable from the non-virtual volumes."""
    seen_v, surfs = set(), set()
    stack = list(t4.nonvirtual())
    while stack:
        v = stack.pop()
        if v in seen_v or v not in t4.vols:
            continue
        seen_v.add(v)
        d = t4.vols[v]
        surfs.update(d['plus']); surfs.update(d['minus'])
        if d['op']:
            stack.extend(d['op'][1])
    return sorted(surfs)


UNION_HELPERS = [(lambda P: P[:, 0] - 1.0, 1), (lambda P: P[:, 0] + 1.0, 1)]


def identify_surfaces(t4, comps, allow_helpers=True):
    """Match every used SURF of the file to one of the reference polynomial
    components (same zero set: f_T4 = lambda * f_ref on a unisolvent set).
    Returns (matches: sid -> (index, lambda), unmatched: [sid])."""
    allc = list(comps) + (UNION_HELPERS if allow_helpers else [])
    matches, unmatched = {}, []
    for sid in used_surfaces(t4):
        if sid not in t4.surfs:
            continue
        f, deg = t4_surface_fn(t4, sid)
        hit = None
        for i, (g, gdeg) in enumerate(allc):
            d = max(deg, gdeg)
            lam = geomdecide.identify(f, g, d)
            if lam is not None:
                hit = (i, lam)
                break
        if hit is None:
            unmatched.append(sid)
        else:
            matches[sid] = hit
    return matches, unmatched


def compare_cells(t4, P, expected, max_report=3):
    """expected: dict volume id -> boolean membership array (reference).
    A volume missing from the file must be empty in the reference."""
    E = t4read.Evaluator(t4, P)
    bad = []
    for vid, want in expected.items():
        if vid in t4.vols and not t4.vols[vid]['fictive']:
            got = E.inside(vid)
        else:
            got = np.zeros(len(P), bool)
        w = np.where(got != want)[0]
        for i in w[:max_report]:
            bad.append('cell %s: point %s reference=%s file=%s%s'
                       % (vid, np.round(P[i], 6).tolist(), bool(want[i]), bool(got[i]),
                          '' if vid in t4.vols else ' (volume absent)'))
    return bad
