"""Comparison of a written file with reference point ownership."""
import numpy as np

from . import geomdecide, t4read


def structural_cls(t4):
    """Classification of the first structural problem, or None."""
    if not t4.problems:
        return None, ''
    rule, detail = t4.problems[0]
    return {'kind': 'structural', 'rule': rule}, '; '.join('%s: %s' % p for p in t4.problems[:5])


def probe_points(t4, ref_planes=(), curved=False, lattice=None):
    """Witness points for the joint arrangement of all plane SURFs of the file
    and the reference planes; refined by a lattice when curved surfaces are
    present.  Returns (P, info)."""
    planes = list(t4read.planes_of(t4)) + list(ref_planes)
    W = geomdecide.witnesses(planes)
    info = {'plane_witnesses': len(W), 'planes': len(geomdecide.cluster(planes))}
    if curved or not t4read.all_planes(t4):
        L = lattice if lattice is not None else geomdecide.lattice_points()
        W = np.vstack([W, L])
        info['lattice_points'] = len(L)
        info['complete'] = False
    else:
        info['complete'] = True
    return W, info


def ownership(t4, P, label_of=None):
    """For every point: (number of non-virtual volumes containing it, label of
    one of them or None)."""
    E = t4read.Evaluator(t4, P)
    cnt = np.zeros(len(P), int)
    lab = np.full(len(P), None, object)
    for v in t4.nonvirtual():
        m = E.inside(v)
        cnt += m
        lab[m] = label_of(v) if label_of else v
    return cnt, lab, E


def compare_owner(t4, P, expected, label_of=None, max_report=3):
    """expected: object array, None where no volume may contain the point.
    Returns list of textual mismatches (empty = agreement)."""
    cnt, lab, E = ownership(t4, P, label_of)
    bad = []
    exp_some = np.array([e is not None for e in expected])
    wrong = np.where(exp_some & (cnt != 1))[0]
    for i in wrong[:max_report]:
        bad.append('point %s: expected exactly one volume (%s), %d contain it'
                   % (np.round(P[i], 6).tolist(), expected[i], cnt[i]))
    wrong = np.where(~exp_some & (cnt != 0))[0]
    for i in wrong[:max_report]:
        bad.append('point %s: expected no volume, %d contain it (e.g. %s)'
                   % (np.round(P[i], 6).tolist(), cnt[i], lab[i]))
    one = np.where(exp_some & (cnt == 1))[0]
    mism = [i for i in one if lab[i] != expected[i]]
    for i in mism[:max_report]:
        bad.append('point %s: owner should be %s, file says %s'
                   % (np.round(P[i], 6).tolist(), expected[i], lab[i]))
    return bad
