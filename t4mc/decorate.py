"""Meaning-preserving decorations of a generated deck (cross-cutting alphabet).

Every check module generates decks in one plain spelling.  A decoration rewrites the cards of such a deck in a
way MCNP treats as equivalent (importances moved to an IMP data card, numbers typed without a leading zero or
with an exponent, other cell parameters added, upper case, continuation lines, comments, tabs, leading
blanks, a message block).  The reference model and the oracle of the module are untouched, so the decorated
states are decided by exactly the same rule; the runner adds, for every scenario of a module that opts in, a
shadow scenario '<name>~deco' = every decoration x at most one (quick) / two (thorough) deviations of the
scenario's own choice points (all of them costed there).

A decoration that does not apply to a deck (nothing to rewrite) rejects the state, so that no deck is counted
twice.
"""
import re

from .explore import Inadmissible

DECOS = ['imp-card', 'dot-numbers', 'exp-numbers', 'kw-extra', 'upper', 'split5', 'amp', 'comments', 'tabs',
         'lead-blanks', 'message', 'wide', 'many-lines', 'mixed-cont']

FLOAT = re.compile(r'^[-+]?(\d+\.\d*|\.\d+)$')
KW_START = re.compile(r'(?i)(\*?fill\b|\*?trcl\b|imp:|\bu=|\blat=|\bvol=|\bmat=|\brho=|\btmp=)')


class AllCosted:
    """Chooser view in which every choice point costs a deviation."""

    def __init__(self, ch):
        self.ch = ch

    def choose(self, label, options, free=False):
        return self.ch.choose(label, options, free=False)

    def flag(self, label, free=False):
        return self.ch.choose(label, (False, True), free=False)

    def reject(self, why=''):
        return self.ch.reject(why)

    def __getattr__(self, name):
        return getattr(self.ch, name)


def shadow_build(build):
    def b(ch):
        deco = ch.choose('decoration', DECOS, free=True)
        st = build(AllCosted(ch))
        apply(st, deco)
        return st
    return b


def _dot(tok):
    """the same number typed without leading zero / trailing zero"""
    if not FLOAT.match(tok):
        return tok
    sign = ''
    t = tok
    if t[0] in '+-':
        sign, t = ('-' if t[0] == '-' else ''), t[1:]
    ip, _, fp = t.partition('.')
    fp = fp.rstrip('0')
    ip = ip.lstrip('0')
    if not ip and not fp:
        return sign + '0.'
    new = sign + ip + '.' + fp
    assert float(new) == float(tok), (tok, new)
    return new


def _exp(tok, k):
    """the same number with an exponent (alternating forms)"""
    if not FLOAT.match(tok):
        return tok
    v = float(tok)
    forms = []
    for scale, ex in ((10.0, '-1'), (0.1, '+1'), (1.0, '+0')):
        m = repr(v * scale)
        if 'e' in m or 'inf' in m or 'nan' in m:
            continue
        for sep in ('e', 'E'):
            cand = m + sep + ex
            if float(cand) == v:
                forms.append(cand)
    if not forms:
        return tok
    return forms[k % len(forms)]


def _respell_tokens(text, fn):
    """apply fn to every blank/parenthesis separated token of text"""
    out = []
    k = 0
    prev = ''
    for piece in re.split(r'([\s()=]+)', text):
        if piece and not re.match(r'^[\s()=]+$', piece):
            # a density keeps its spelling (the composition is named after it, C09 decides those classes)
            new = piece if prev.lower() == 'rho' else fn(piece, k)
            k += 1
            out.append(new)
            prev = piece
        else:
            out.append(piece)
    return ''.join(out)


def _numbers(st, fn):
    changed = False

    def f(tok, k):
        return fn(tok, k)
    cells = []
    for c in st.cells:
        code, sep, com = c.partition('$')
        m = KW_START.search(code)
        if m and '\n' not in c:
            head, tail = code[:m.start()], code[m.start():]
            new = head + _respell_tokens(tail, f)
            changed |= new != code
            code = new
        cells.append(code + sep + com)
    surfs = []
    for s in st.surfs:
        code, sep, com = s.partition('$')
        toks = code.split()
        # number [transformation] mnemonic parameters...
        k0 = next((i for i, t in enumerate(toks) if re.match(r'^[a-zA-Z/]+$', t)), None)
        if k0 is not None and '\n' not in s:
            new = ' '.join(toks[:k0 + 1] + [fn(t, i) for i, t in enumerate(toks[k0 + 1:])])
            changed |= new != code.strip()
            code = new + (' ' if sep else '')
        surfs.append(code + sep + com)
    data = []
    for d in st.data:
        if re.match(r'^\*?tr\d+\s', d.lower()) and '\n' not in d and '$' not in d:
            toks = d.split()
            new = ' '.join(toks[:1] + [fn(t, i) for i, t in enumerate(toks[1:])])
            changed |= new != d
            d = new
        data.append(d)
    if not changed:
        raise Inadmissible('no number to respell')
    st.cells, st.surfs, st.data = cells, surfs, data


def _split(card, joiner):
    if '\n' in card or '$' in card or '&' in card or re.match(r'^\s{0,4}[cC](\s|$)', card):
        return card          # (a comment card cannot be continued)
    gaps = [m.start() for m in re.finditer(r'(?<=\S) (?=\S)', card)]
    if len(gaps) < 3:
        return card
    g = gaps[len(gaps) // 2]
    return card[:g] + joiner + card[g + 1:]


def apply(st, deco):
    if not isinstance(getattr(st, 'cells', None), list) or not st.cells:
        raise Inadmissible('state has no card lists')
    st.cells, st.surfs, st.data = list(st.cells), list(st.surfs), list(st.data)
    if deco == 'imp-card':
        vals = []
        cells = []
        for c in st.cells:
            code = c.split('$')[0]
            if re.search(r'(?i)\blike\b', code) or '\n' in c:
                raise Inadmissible('LIKE cells keep their importances on the card')
            m = re.findall(r'(?i)\s+imp:([a-z,]+)=(\S+)', code)
            if len(m) != 1 or m[0][0].lower() != 'n':
                raise Inadmissible('importances not of the single imp:n=v form')
            vals.append(m[0][1])
            cells.append(re.sub(r'(?i)\s+imp:n=\S+', '', c, count=1))
        if any(d.lower().startswith('imp:') for d in st.data):
            raise Inadmissible('deck has IMP data cards already')
        st.cells = cells
        st.data.append('imp:n ' + ' '.join(vals))
    elif deco == 'dot-numbers':
        _numbers(st, lambda t, k: _dot(t))
    elif deco == 'exp-numbers':
        _numbers(st, _exp)
    elif deco == 'kw-extra':
        extras = ['vol=1', 'tmp=2.53e-8 vol=2.5', 'pwt=1', 'unc:n=1', 'nonu=1', 'ext:n=0', 'elpt:n=0.1 fcl:n=0']
        cells = []
        n = 0
        for i, c in enumerate(st.cells):
            code, sep, com = c.partition('$')
            if re.search(r'(?i)\blike\b', code) or '\n' in c:
                cells.append(c)
                continue
            cells.append(code.rstrip() + ' ' + extras[i % len(extras)] + (' ' if sep else '') + sep + com)
            n += 1
        if not n:
            raise Inadmissible('no plain cell card')
        st.cells = cells
    elif deco == 'upper':
        up = lambda c: c.partition('$')[0].upper() + ''.join(c.partition('$')[1:])
        st.cells, st.surfs, st.data = [up(c) for c in st.cells], [up(c) for c in st.surfs], [up(c) for c in st.data]
    elif deco in ('split5', 'amp'):
        j = '\n     ' if deco == 'split5' else ' &\n'
        new = [[_split(c, j) for c in lst] for lst in (st.cells, st.surfs, st.data)]
        if new == [st.cells, st.surfs, st.data]:
            raise Inadmissible('no card long enough')
        st.cells, st.surfs, st.data = new
    elif deco == 'comments':
        def com(lst, tag):
            out = []
            for i, c in enumerate(lst):
                c2 = c if ('$' in c or '&' in c or '\n' in c) else c + ' $ %s %d = ( 1 2' % (tag, i)
                out.append(('c %s card %d\n' % (tag, i) if i % 3 == 0 else 'C\n' if i % 3 == 1 else 'c\tafter a tab %d\n' % i) + c2)
            return out
        st.cells, st.surfs, st.data = com(st.cells, 'cell'), com(st.surfs, 'surf'), com(st.data, 'data')
    elif deco == 'tabs':
        def tab(c):
            if '$' in c or '\n' in c:
                return c
            parts = c.split(' ')
            out = parts[0]
            for i, p in enumerate(parts[1:]):
                out += ('\t' if i % 2 else '  ') + p
            return out
        st.cells, st.surfs, st.data = [tab(c) for c in st.cells], [tab(c) for c in st.surfs], [tab(c) for c in st.data]
    elif deco == 'lead-blanks':
        lead = lambda lst: [(' ' * (1 + i % 4)) + c if not c.startswith(' ') else c for i, c in enumerate(lst)]
        st.cells, st.surfs, st.data = lead(st.cells), lead(st.surfs), lead(st.data)
    elif deco == 'wide':
        # lines may be up to 128 columns wide: push the last field of every card beyond column 80
        def wide(c):
            if '\n' in c or '$' in c or '&' in c or re.match(r'^\s{0,4}[cC](\s|$)', c):
                return c
            k = c.rstrip().rfind(' ')
            if k <= 0 or len(c) > 110 or '(' in c[k:] and ')' not in c[k:]:
                return c
            last = c[k + 1:]
            pad = max(1, 84 - k - 1)
            if k + pad + len(last) > 126:
                return c
            return c[:k] + ' ' * pad + last
        new = [[wide(c) for c in lst] for lst in (st.cells, st.surfs, st.data)]
        if new == [st.cells, st.surfs, st.data]:
            raise Inadmissible('no card to widen')
        st.cells, st.surfs, st.data = new
    elif deco == 'many-lines':
        # every field of a card on a line of its own (continuation by five blanks)
        def many(c):
            if '\n' in c or '$' in c or '&' in c or re.match(r'^\s{0,4}[cC](\s|$)', c):
                return c
            words = c.split(' ')
            if len(words) < 4:
                return c
            return words[0] + ' ' + words[1] + ''.join(('\nc\tcomment inside a card' if k == 1 else '') + '\n      ' + w
                                                       for k, w in enumerate(w for w in words[2:] if w))
        new = [[many(c) for c in lst] for lst in (st.cells, st.surfs, st.data)]
        if new == [st.cells, st.surfs, st.data]:
            raise Inadmissible('no card long enough')
        st.cells, st.surfs, st.data = new
    elif deco == 'mixed-cont':
        # cards over three or more lines mixing both continuation styles: a line continued by indentation may
        # itself end with & and be continued by a line that starts in column 1
        def mixed(c):
            if '\n' in c or '$' in c or '&' in c or re.match(r'^\s{0,4}[cC](\s|$)', c):
                return c
            words = [w for w in c.split(' ') if w]
            if len(words) < 5:
                return c
            k = max(1, len(words) // 4)
            chunks = [words[i:i + k] for i in range(0, len(words), k)]
            lines = [' '.join(chunks[0])]
            prev_amp = False
            for j, ch_ in enumerate(chunks[1:], 1):
                text = ' '.join(ch_)
                last = j == len(chunks) - 1
                if prev_amp:
                    line = text                 # continued by the & of the previous line: starts in column 1
                    amp = False
                else:
                    line = '      ' + text      # continued by its indentation ...
                    amp = not last and j % 2 == 1   # ... and may announce a further line with &
                if amp:
                    line += ' &'
                prev_amp = amp
                lines.append(line)
            return '\n'.join(lines)
        new = [[mixed(c) for c in lst] for lst in (st.cells, st.surfs, st.data)]
        if new == [st.cells, st.surfs, st.data]:
            raise Inadmissible('no card long enough')
        st.cells, st.surfs, st.data = new
    elif deco == 'message':
        st.title = 'MeSsAgE: outp=deck.o runtpe=deck.r\n\n' + st.title
    else:
        raise ValueError(deco)
    return st
